import Darling.Props.C03Recv2
import Darling.Props.C04Spec
import Darling.Derive.Outer
/-
  C03 — "Errors carry the most specific source span and never lose it":
  an independent specification written from the property text, and `model ⊨ spec` theorems.

  ## What the older theorems said, and what was missing

  `recv_allWithin` / `corpus_allWithin` / `hooksOf_spansIn` (C03Universe, C03Recv2) say: *no span that
  occurs anywhere in the error sticks out of the item*.  A leaf with **no span at all** satisfies
  them, so the first clause of the text ("carries an explicit span") was not established; nothing
  was said leaf-by-leaf after flattening (the observable of the text); "inside the offending item
  itself" was proved only for the top node of what the item loop records (`coreLoop_placed`) and
  under an ambient span for the rest; the clauses about absences (enclosing item's span; unspanned
  only at the root) and about element-level receivers had no theorem.

  ## The specification (sections 2, 4, 5, 6) — every notion is about the *flattened leaves*
  (`Err.intoVec`, whose positional meaning is `C04.intoVec_spec`: kind, full path, nearest span)

    * `IsAbsence l`        the leaf reports something absent (`Missing field`, `Too few items`);
    * `SpannedWithin A l`  (C03Recv) the leaf shows an explicit span inside `A`;
    * `ItemPlaced A e`     every leaf of `e` shows an explicit span inside `A`;
    * `LeafOk encl present l`  the text's verdict on one leaf of an error about a list of items present
                           at `present`, read inside the item `encl` (`none` = root of an attribute
                           set): *either* an explicit span inside one of the present items (the
                           offending item itself), *or* an absence from this very list (no path of
                           its own) showing exactly `encl`;
    * `ListPlaced encl present e`  all leaves `LeafOk`;
    * `ElemLeafOk attrs l` the same for a whole element: inside an item of one of its attributes /
                           inside an attribute that presents no items / root absence (no span) /
                           shape verdict (no span).

  ## Main theorems
    item level (unconditional beyond the two monitored hypotheses of the older theorems)
      `hooksOf_metaTop`, `recvHooks_metaTop`   every `from_meta` error has a span on its top node
      `recv_itemPlaced`, `corpus_itemPlaced`   ⇒ every flattened leaf explicit and inside the item
      `corpus_diagnostics_placed`              ⇒ every compiler diagnostic placed inside the item
    list level, derived struct
      `struct_fromList_placed_partial`         `ListPlaced none (presentOf items)`
      `struct_fromMeta_placed_partial`         nested: `ListPlaced (some item.span) …` (absences show
                                               exactly the enclosing item's span)
      `corpus_struct_fromList_placed_partial`  for the parser `Env` assembles from any declaration
    derived enum (after the repair F29: no condition on the form of the item or on the leaves)
      `enum_item_placed_partial`, `corpus_enum_item_placed_partial`   every leaf inside the selecting item
      `enum_struct_variant_placed_partial`     tight reading: an absence inside `st(…)` shows exactly
                                               the span of `st(…)` and the path `st`
      `enum_fromList_placed_partial`           the enum at the root of an attribute set (≤ 1 item)
    element level (`extract` + `finishOuter`, the composition of every element-level `from_*`)
      `outer_placed_partial`, `validateBody_verdict`
    algebra (clause 4)
      `intoVec_withSpan`, `intoVec_at`, `intoVec_multiple`, `span_survives_ops`,
      `leaf_span_survives_ops`, `shown_eq_nearest`, `flatten_shows_nearest`, `toSyn_shows_nearest`,
      `toSyn_unspanned_shows_path`

  ## Discrepancies text / behaviour (section 9 has them as Lean `example`s; all reproduced on the
     pristine library, program and output below).  One root cause: **the `from_list` a derived enum
     emitted never attached the span of the item that selects the variant** (only the unknown-variant
     error did); it relied on a caller's default `from_meta` to span the result with *its* item.
     **Repaired (F29)**: in the single-item arm the emitted code now spans whatever the selected
     variant's arm returns with the selecting item (`with_span` never replaces, so more specific
     spans stay); the model follows (`enumFromList`).  D1, D3, D4 are positive statements now.

    D1  (REPAIRED) form mismatch (`unit = 3` for a unit variant, `st = 1` for a struct variant): at the
        root of an attribute set (enum behind `#[darling(flatten)]`, or `from_list` called directly)
        the leaf had **no span and no path** although it concerns a present item; as an ordinary
        field the leaf got the span of the field's item, not of the offending item.  Now: the span of
        the offending item in both cases; `enum_item_placed_partial` lost its side condition
        `FormFits`.  (`FlattenPlaced` of the struct / element-level theorems is still a hypothesis
        because of D2; `enum_fromList_placed_partial` discharges it for an enum handed ≤ 1 item.)
    D2  (stands) a literal or a surplus item at the enum: unspanned at the root — there is no single
        item at fault, and the repair does not touch these errors.
    D3  (REPAIRED) a field missing *inside* `st(…)`: was unspanned at the root although the enclosing
        item `st(…)` is present ("only absences with no enclosing item … are unspanned").  Now it
        shows the span of `st(…)`; `enum_item_placed_partial` lost its side condition on the leaves.
    D4  (REPAIRED) the same as a field `e(st(x = 1))`: the leaf showed the span of `e(…)`, the item
        that encloses the enclosing item.  Now it shows exactly the span of `st(…)`
        (`enum_struct_variant_placed_partial`; the spans offered further out never replace it).
    O1  (observation) per-variant shape verdicts (`supports(enum_unit)` on `enum X { A, B{..}, C(..) }`)
        carry neither span nor path: two identical-looking messages, the variant is not named.
    O2  (observation) `into_iter()` on an unflattened bundle drops the bundle's span / location
        (outside the three operations the text names).

  ## Reproduction (/tmp/aud-C03, path-dependency on the pristine checkout, `cargo run --offline`)

```rust
// C03 audit: reproduction of the discrepancies D1-D4 (and observation O1) on the pristine library.
#![allow(dead_code)]
use darling::ast::NestedMeta;
use darling::{FromDeriveInput, FromMeta};

#[derive(Debug, FromMeta)]
enum E {
    Unit,
    St { x: u8, y: u8 },
}

/// list-level entry: a FromMeta struct whose flatten field is the enum
#[derive(Debug, FromMeta)]
struct R {
    #[darling(flatten)]
    e: E,
}

/// the enum as an ordinary field
#[derive(Debug, FromMeta)]
struct H {
    e: E,
}

/// element-level receiver with the enum behind `flatten`
#[derive(Debug, FromDeriveInput)]
#[darling(attributes(my))]
struct Elem {
    #[darling(flatten)]
    e: E,
}

/// element-level receiver holding `H`
#[derive(Debug, FromDeriveInput)]
#[darling(attributes(my))]
struct Elem2 {
    h: H,
}

/// O1: per-variant shape verdicts
#[derive(Debug, FromDeriveInput)]
#[darling(attributes(my), supports(enum_unit))]
struct OnlyUnitVariants {}

fn show(tag: &str, src: &str, e: darling::Error) {
    println!("== {tag}: {src}");
    for leaf in e.clone().flatten() {
        let sp = leaf.explicit_span().map(|s| {
            let r = s.byte_range();
            format!("{}..{} `{}`", r.start, r.end, src.get(r.start..r.end).unwrap_or("?"))
        });
        println!("   leaf: {leaf:<55} span: {}", sp.unwrap_or_else(|| "NONE".into()));
    }
    for d in syn::Error::from(e) {
        let r = d.span().byte_range();
        println!("   diag: {:<55} at {}..{}", d.to_string(), r.start, r.end);
    }
}

fn list(src: &str) -> Vec<NestedMeta> {
    NestedMeta::parse_meta_list(src.parse().unwrap()).unwrap()
}

fn main() {
    // D1 / D2 / D3 at list level (FromMeta::from_list at the root of an attribute set)
    for src in ["unit = 3", "st = 1", "\"lit\"", "st(x = 1), unit", "st(x = 1)"] {
        show("R::from_list", src, R::from_list(&list(src)).unwrap_err());
    }
    show("E::from_list", "st(x = 1)", E::from_list(&list("st(x = 1)")).unwrap_err());
    // the same through an element-level receiver
    for src in [
        "#[my(unit = 3)] struct S;",
        "#[my(st(x = 1))] struct S;",
        "#[my(st(x = 1), unit)] struct S;",
    ] {
        let di: syn::DeriveInput = syn::parse_str(src).unwrap();
        show("Elem::from_derive_input", src, Elem::from_derive_input(&di).unwrap_err());
    }
    // D4: the grand-enclosing item's span
    let src = "#[my(h(e(st(x = 1))))] struct S;";
    let di: syn::DeriveInput = syn::parse_str(src).unwrap();
    show("Elem2::from_derive_input", src, Elem2::from_derive_input(&di).unwrap_err());
    // O1
    let src = "enum X { A, B { f: u8 }, C(u8) }";
    let di: syn::DeriveInput = syn::parse_str(src).unwrap();
    show("OnlyUnitVariants::from_derive_input", src, OnlyUnitVariants::from_derive_input(&di).unwrap_err());
}
```

  output (pristine library, before the repair F29):

```
== R::from_list: unit = 3
   leaf: Unexpected meta-item format `non-path` span: NONE
   diag: Unexpected meta-item format `non-path`                  at 0..0
== R::from_list: st = 1
   leaf: Unexpected meta-item format `non-list` span: NONE
   diag: Unexpected meta-item format `non-list`                  at 0..0
== R::from_list: "lit"
   leaf: Unexpected meta-item format `literal` span: 0..5 `"lit"`
   leaf: Too few items: Expected at least 1 span: NONE
   diag: Unexpected meta-item format `literal`                   at 0..5
   diag: Too few items: Expected at least 1                      at 0..0
== R::from_list: st(x = 1), unit
   leaf: Too many items: Expected no more than 1 span: NONE
   diag: Too many items: Expected no more than 1                 at 0..0
== R::from_list: st(x = 1)
   leaf: Missing field `y` at st span: NONE
   diag: Missing field `y` at st                                 at 0..0
== E::from_list: st(x = 1)
   leaf: Missing field `y` at st span: NONE
   diag: Missing field `y` at st                                 at 0..0
== Elem::from_derive_input: #[my(unit = 3)] struct S;
   leaf: Unexpected meta-item format `non-path` span: NONE
   diag: Unexpected meta-item format `non-path`                  at 0..0
== Elem::from_derive_input: #[my(st(x = 1))] struct S;
   leaf: Missing field `y` at st span: NONE
   diag: Missing field `y` at st                                 at 0..0
== Elem::from_derive_input: #[my(st(x = 1), unit)] struct S;
   leaf: Too many items: Expected no more than 1 span: NONE
   diag: Too many items: Expected no more than 1                 at 0..0
== Elem2::from_derive_input: #[my(h(e(st(x = 1))))] struct S;
   leaf: Missing field `y` at h/e/st span: 7..19 `e(st(x = 1))`
   diag: Missing field `y`                                       at 7..19
== OnlyUnitVariants::from_derive_input: enum X { A, B { f: u8 }, C(u8) }
   leaf: Unsupported shape `named fields`. Expected no fields. span: NONE
   leaf: Unsupported shape `one unnamed field`. Expected no fields. span: NONE
   diag: Unsupported shape `named fields`. Expected no fields.   at 0..0
   diag: Unsupported shape `one unnamed field`. Expected no fields. at 0..0
```

  the lines that differ with the repair F29 applied (same program; D2 and O1 unchanged):

```
== R::from_list: unit = 3
   leaf: Unexpected meta-item format `non-path` span: 0..8 `unit = 3`
== R::from_list: st = 1
   leaf: Unexpected meta-item format `non-list` span: 0..6 `st = 1`
== R::from_list: st(x = 1)
   leaf: Missing field `y` at st span: 0..9 `st(x = 1)`
== E::from_list: st(x = 1)
   leaf: Missing field `y` at st span: 0..9 `st(x = 1)`
== Elem::from_derive_input: #[my(unit = 3)] struct S;
   leaf: Unexpected meta-item format `non-path` span: 5..13 `unit = 3`
== Elem::from_derive_input: #[my(st(x = 1))] struct S;
   leaf: Missing field `y` at st span: 5..14 `st(x = 1)`
== Elem2::from_derive_input: #[my(h(e(st(x = 1))))] struct S;
   leaf: Missing field `y` at h/e/st span: 9..18 `st(x = 1)`
```
-/

open Derive Err

namespace C03

/-! ## 1. the error algebra, leaf by leaf -/

theorem or_or_some (a b : Option Span) (s : Span) : a.or (b.or (some s)) = (a.or b).or (some s) := by
  cases a <;> cases b <;> rfl

theorem leaf_inherit_withSpan (k : Kind) (ls : List String) (own inh : Option Span) (s : Span) :
    (Err.leaf k ls own).inheritSpan (inh.or (some s))
      = ((Err.leaf k ls own).inheritSpan inh).withSpan s := by
  cases own <;> cases inh <;> rfl

mutual
theorem intoVecP_or (pre : List String) (inh : Option Span) (s : Span) : (e : Err) →
    intoVecP pre (inh.or (some s)) e = (intoVecP pre inh e).map (·.withSpan s)
  | .leaf k ls own => by
      simp only [intoVecP_leaf, List.map_cons, List.map_nil, leaf_inherit_withSpan]
  | .multi cs ls own => by
      simp only [intoVecP_multi]
      rw [or_or_some]
      exact intoVecListP_or (pre ++ ls) (own.or inh) s cs
theorem intoVecListP_or (pre : List String) (inh : Option Span) (s : Span) : (es : List Err) →
    intoVecListP pre (inh.or (some s)) es = (intoVecListP pre inh es).map (·.withSpan s)
  | [] => by simp only [intoVecListP_nil, List.map_nil]
  | c :: cs => by
      simp only [intoVecListP_cons, List.map_append, intoVecP_or pre inh s c, intoVecListP_or pre inh s cs]
end

theorem withSpan_idem (e : Err) (s t : Span) : (e.withSpan s).withSpan t = e.withSpan s := by
  cases hs : e.span with
  | none => exact withSpan_first_wins e s t hs
  | some u => rw [withSpan_keeps e u s hs, withSpan_keeps e u t hs]

/-- **`with_span` seen from the leaves**: exactly the leaves that showed no span now show the new
    one; every other leaf is unchanged -/
theorem intoVec_withSpan (e : Err) (s : Span) : intoVec (e.withSpan s) = (intoVec e).map (·.withSpan s) := by
  cases e with
  | leaf k ls own => cases own <;> rfl
  | multi cs ls own =>
      cases own with
      | none =>
          show intoVecP [] none (.multi cs ls (some s)) = (intoVecP [] none (.multi cs ls none)).map _
          simp only [intoVecP_multi]
          exact intoVecListP_or ([] ++ ls) none s cs
      | some t =>
          show intoVecP [] none (.multi cs ls (some t)) = (intoVecP [] none (.multi cs ls (some t))).map _
          simp only [intoVecP_multi]
          have h := intoVecListP_or ([] ++ ls) none t cs
          simp only [Option.none_or] at h
          show intoVecListP ([] ++ ls) (some t) cs = List.map _ (intoVecListP ([] ++ ls) (some t) cs)
          rw [h, List.map_map]
          apply List.map_congr_left
          intro x _
          exact (withSpan_idem x t s).symm

theorem leaf_inherit_at (k : Kind) (l : String) (pre ls : List String) (own inh : Option Span) :
    (Err.leaf k ((l :: pre) ++ ls) own).inheritSpan inh
      = ((Err.leaf k (pre ++ ls) own).inheritSpan inh).at l := by
  cases own <;> cases inh <;> rfl

mutual
theorem intoVecP_consLoc (l : String) (pre : List String) (inh : Option Span) : (e : Err) →
    intoVecP (l :: pre) inh e = (intoVecP pre inh e).map (·.at l)
  | .leaf k ls own => by
      simp only [intoVecP_leaf, List.map_cons, List.map_nil, leaf_inherit_at]
  | .multi cs ls own => by
      simp only [intoVecP_multi, List.cons_append]
      exact intoVecListP_consLoc l (pre ++ ls) (own.or inh) cs
theorem intoVecListP_consLoc (l : String) (pre : List String) (inh : Option Span) : (es : List Err) →
    intoVecListP (l :: pre) inh es = (intoVecListP pre inh es).map (·.at l)
  | [] => by simp only [intoVecListP_nil, List.map_nil]
  | c :: cs => by
      simp only [intoVecListP_cons, List.map_append, intoVecP_consLoc l pre inh c,
        intoVecListP_consLoc l pre inh cs]
end

/-- **`at` seen from the leaves**: every leaf gets the location in front, nothing else moves -/
theorem intoVec_at (e : Err) (l : String) : intoVec (e.at l) = (intoVec e).map (·.at l) := by
  cases e with
  | leaf k ls own => rfl
  | multi cs ls own =>
      show intoVecP [] none (.multi cs (l :: ls) own) = (intoVecP [] none (.multi cs ls own)).map _
      simp only [intoVecP_multi, List.nil_append]
      exact intoVecListP_consLoc l ls (own.or none) cs

theorem intoVecListP_eq_flatMap (pre : List String) (inh : Option Span) (es : List Err) :
    intoVecListP pre inh es = es.flatMap (intoVecP pre inh) := by
  induction es with
  | nil => rfl
  | cons c cs ih => simp only [intoVecListP_cons, List.flatMap_cons, ih]

/-- **bundling seen from the leaves**: the leaves of `Error::multiple(es)` are the leaves of the
    members, in order, each showing what it showed before -/
theorem intoVec_multiple {es : List Err} {b : Err} (h : Err.multiple es = .ok b) :
    intoVec b = es.flatMap intoVec := by
  match es, h with
  | [x], h =>
      simp only [Err.multiple, Outcome.ok.injEq] at h; subst h
      simp only [List.flatMap_cons, List.flatMap_nil, List.append_nil]
  | x :: y :: r, h =>
      simp only [Err.multiple, Outcome.ok.injEq] at h; subst h
      show intoVecP [] none (.multi (x :: y :: r) [] none) = _
      simp only [intoVecP_multi, List.append_nil, Option.or_none, intoVecListP_eq_flatMap]
      rfl

theorem intoVec_bundleErr {α : Type} {es : List Err} {b : Err} (h : (Err.bundleErr es : Outcome α) = .err b) :
    intoVec b = es.flatMap intoVec := by
  unfold Err.bundleErr at h
  cases hm : Err.multiple es with
  | ok e => rw [hm] at h; simp only [Outcome.err.injEq] at h; subst h; exact intoVec_multiple hm
  | err e =>
      exfalso
      match es, hm with
      | [], hm => simp only [Err.multiple] at hm; cases hm
      | [x], hm => simp only [Err.multiple] at hm; cases hm
      | x :: y :: r, hm => simp only [Err.multiple] at hm; cases hm
  | panic m => rw [hm] at h; cases h

/-! ## 2. the vocabulary of the property text -/

/-- the kinds that report something *absent* from the input (a required field, the one item an
    enum needs) -/
def isAbsenceKind : Kind → Bool
  | .missingField _ => true
  | .tooFewItems _ => true
  | _ => false

/-- a (flattened) leaf reports an absence -/
def IsAbsence : Err → Prop
  | .leaf k _ _ => isAbsenceKind k = true
  | .multi _ _ _ => False

/-- **item-level placement**: every flattened leaf shows an explicit span lying inside `A` -/
def ItemPlaced (A : Span) (e : Err) : Prop := ∀ l ∈ intoVec e, SpannedWithin A l

/-- the text's verdict on one flattened leaf of an error about a list of items that are *present*
    at the spans `present` and are read inside the enclosing item `encl` (`none`: the root of an
    attribute set): the leaf concerns something present and then shows an explicit span inside
    the offending item itself, or it reports an absence from this very list (it has no path of
    its own: nothing nested was entered) and then shows the enclosing item's span — no span only
    at the root -/
def LeafOk (encl : Option Span) (present : List Span) (l : Err) : Prop :=
  (∃ p ∈ present, SpannedWithin p l) ∨ (IsAbsence l ∧ l.span = encl ∧ l.locs = [])

/-- **list-level placement** of a whole error -/
def ListPlaced (encl : Option Span) (present : List Span) (e : Err) : Prop :=
  ∀ l ∈ intoVec e, LeafOk encl present l

/-! ### from `all spans inside` + `a span on top` to `every leaf explicit` -/

theorem okIn_or {A : Span} {a b : Option Span} (ha : Span.okIn A a = true) (hb : Span.okIn A b = true) :
    Span.okIn A (a.or b) = true := by
  cases a with
  | none => exact hb
  | some x => exact ha

theorem span_inherit' (k : Kind) (ls : List String) (own inh : Option Span) :
    ((Err.leaf k ls own).inheritSpan inh).span = own.or inh := by
  cases own <;> cases inh <;> rfl

mutual
theorem intoVecP_shows (A : Span) (pre : List String) (inh : Option Span) : (e : Err) →
    e.allWithin A = true → Span.okIn A inh = true →
    ∀ l ∈ intoVecP pre inh e, Span.okIn A l.span = true ∧ (inh.isSome = true → l.span.isSome = true)
  | .leaf k ls own, h, hi => by
      intro l hl
      simp only [intoVecP_leaf, List.mem_singleton] at hl
      subst hl
      rw [span_inherit']
      simp only [Err.allWithin] at h
      refine ⟨okIn_or h hi, ?_⟩
      intro hs
      cases own with
      | none => exact hs
      | some x => rfl
  | .multi cs ls own, h, hi => by
      intro l hl
      simp only [intoVecP_multi] at hl
      simp only [Err.allWithin, Bool.and_eq_true] at h
      have := intoVecListP_shows A (pre ++ ls) (own.or inh) cs h.2 (okIn_or h.1 hi) l hl
      refine ⟨this.1, fun hs => this.2 ?_⟩
      cases own with
      | none => exact hs
      | some x => rfl
theorem intoVecListP_shows (A : Span) (pre : List String) (inh : Option Span) : (es : List Err) →
    Err.allWithinList A es = true → Span.okIn A inh = true →
    ∀ l ∈ intoVecListP pre inh es, Span.okIn A l.span = true ∧ (inh.isSome = true → l.span.isSome = true)
  | [], _, _ => by intro l hl; simp only [intoVecListP_nil, List.not_mem_nil] at hl
  | c :: cs, h, hi => by
      intro l hl
      simp only [Err.allWithinList, Bool.and_eq_true] at h
      simp only [intoVecListP_cons, List.mem_append] at hl
      rcases hl with hl | hl
      · exact intoVecP_shows A pre inh c h.1 hi l hl
      · exact intoVecListP_shows A pre inh cs h.2 hi l hl
end

/-- an error whose spans all lie inside `A` and whose top node has one shows, after flattening,
    an explicit span inside `A` on every leaf -/
theorem itemPlaced_of_top {A : Span} {e : Err} (hall : e.AllWithin A) (htop : e.span.isSome = true) :
    ItemPlaced A e := by
  intro l hl
  cases e with
  | leaf k ls own =>
      simp only [intoVec, intoVecP_leaf, List.mem_singleton] at hl
      subst hl
      simp only [Err.span] at htop
      cases own with
      | none => cases htop
      | some s =>
          simp only [Err.AllWithin, Err.allWithin, Span.okIn] at hall
          exact ⟨s, rfl, hall⟩
  | multi cs ls own =>
      simp only [Err.span] at htop
      cases own with
      | none => cases htop
      | some s =>
          simp only [Err.AllWithin, Err.allWithin, Bool.and_eq_true] at hall
          simp only [intoVec, intoVecP_multi] at hl
          have := intoVecListP_shows A ([] ++ ls) ((some s).or none) cs hall.2 hall.1 l hl
          have h2 := this.2 rfl
          cases hsp : l.span with
          | none => rw [hsp] at h2; cases h2
          | some t =>
              have h1 := this.1
              rw [hsp] at h1
              exact ⟨t, hsp, h1⟩

/-! ## 3. every `from_meta` answers with a span on top (all built-in targets, all receivers) -/

/-- every error of `from_meta` carries a span on its top node -/
def _root_.Hooks.MetaTop {α : Type} (h : Hooks α) : Prop :=
  ∀ m e, h.fromMeta m = .err e → e.span.isSome = true

theorem withSpan_isSome (e : Err) (s : Span) : (e.withSpan s).span.isSome = true := by
  cases hs : e.span with
  | none => rw [withSpan_sets e s hs]; rfl
  | some t => rw [withSpan_keeps e t s hs, hs]; rfl

theorem mapErr_withSpan_top {α : Type} (o : Outcome α) (s : Span) (e : Err)
    (h : o.mapErr (·.withSpan s) = .err e) : e.span.isSome = true := by
  cases o with
  | ok v => cases h
  | panic m => cases h
  | err e0 => simp only [Outcome.mapErr, Outcome.err.injEq] at h; subst h; exact withSpan_isSome e0 s

theorem map_err_inv {α β : Type} {o : Outcome α} {f : α → β} {e : Err} (h : o.map f = .err e) : o = .err e := by
  cases o with
  | ok v => cases h
  | panic m => cases h
  | err e0 => simp only [Outcome.map, Outcome.err.injEq] at h; subst h; rfl

/-- the default body of `from_meta` always answers with a span on top -/
theorem fromMetaD_top {α : Type} (h : Hooks α) (m : Meta) (e : Err) (he : h.fromMetaD m = .err e) :
    e.span.isSome = true := by
  cases m with
  | path p => exact mapErr_withSpan_top _ _ e he
  | nameValue p x t sp => exact mapErr_withSpan_top _ _ e he
  | list p items bad ts t sp =>
      cases bad with
      | some b =>
          obtain ⟨msg, bs⟩ := b
          simp only [Hooks.fromMetaD, Outcome.err.injEq] at he
          subst he; rfl
      | none => exact mapErr_withSpan_top _ _ e he

theorem metaTop_of_default {α : Type} (h : Hooks α) (hn : h.fromMeta? = none) : h.MetaTop := by
  intro m e he
  simp only [Hooks.fromMeta, hn] at he
  exact fromMetaD_top h m e he

theorem metaTop_of_override {α : Type} (h : Hooks α) (f : Meta → Outcome α) (hf : h.fromMeta? = some f)
    (ht : ∀ m e, f m = .err e → e.span.isSome = true) : h.MetaTop := by
  intro m e he
  simp only [Hooks.fromMeta, hf] at he
  exact ht m e he

theorem hooksOf_metaTop (o : Oracle) (rh : String → Hooks Val) (hrh : ∀ n, (rh n).MetaTop) :
    (t : Ty) → (hooksOf o rh t).MetaTop
  | .unit => by simp only [hooksOf]; exact metaTop_of_default _ rfl
  | .bool => by simp only [hooksOf]; exact metaTop_of_default _ rfl
  | .char => by simp only [hooksOf]; exact metaTop_of_default _ rfl
  | .string => by simp only [hooksOf]; exact metaTop_of_default _ rfl
  | .pathBuf => by simp only [hooksOf]; exact metaTop_of_default _ rfl
  | .int sp => by simp only [hooksOf]; exact metaTop_of_default _ rfl
  | .float w => by simp only [hooksOf]; exact metaTop_of_default _ rfl
  | .atomicBool => by
      simp only [hooksOf]
      exact metaTop_of_override _ _ rfl (fun m e he => mapErr_withSpan_top _ _ e he)
  | .flag => by
      simp only [hooksOf]
      refine metaTop_of_override _ _ rfl ?_
      intro m e he
      cases m with
      | path p => cases he
      | list p items bad ts t sp =>
          simp only [] at he
          cases hu : (Scalars.unitHooks ()).fromMeta (.list p items bad ts t sp) with
          | ok v => rw [hu] at he; cases he
          | panic x => rw [hu] at he; cases he
          | err e0 =>
              rw [hu] at he
              simp only [Outcome.err.injEq] at he; subst he
              exact metaTop_of_default _ rfl _ _ hu
      | nameValue p x t sp =>
          simp only [] at he
          cases hu : (Scalars.unitHooks ()).fromMeta (.nameValue p x t sp) with
          | ok v => rw [hu] at he; cases he
          | panic x => rw [hu] at he; cases he
          | err e0 =>
              rw [hu] at he
              simp only [Outcome.err.injEq] at he; subst he
              exact metaTop_of_default _ rfl _ _ hu
  | .option t => by
      simp only [hooksOf]
      exact metaTop_of_override _ _ rfl
        (fun m e he => hooksOf_metaTop o rh hrh t m e (map_err_inv he))
  | .ptr t => by
      simp only [hooksOf]
      exact metaTop_of_override _ _ rfl
        (fun m e he => hooksOf_metaTop o rh hrh t m e (map_err_inv he))
  | .result t => by
      simp only [hooksOf]
      refine metaTop_of_override _ _ rfl ?_
      intro m e he
      simp only [] at he
      cases hu : (hooksOf o rh t).fromMeta m <;> rw [hu] at he <;> cases he
  | .resultMeta t => by
      simp only [hooksOf]
      refine metaTop_of_override _ _ rfl ?_
      intro m e he
      simp only [] at he
      cases hu : (hooksOf o rh t).fromMeta m <;> rw [hu] at he <;> cases he
  | .override t => by
      simp only [hooksOf]
      refine metaTop_of_override _ _ rfl ?_
      intro m e he
      cases m with
      | path p => cases he
      | list p items bad ts tk sp => exact hooksOf_metaTop o rh hrh t _ e (map_err_inv he)
      | nameValue p x tk sp => exact hooksOf_metaTop o rh hrh t _ e (map_err_inv he)
  | .spanned t => by
      simp only [hooksOf]
      refine metaTop_of_override _ _ rfl ?_
      intro m e he
      simp only [] at he
      cases hu : ((hooksOf o rh t).fromMeta m).mapErr (·.withSpan m.span) with
      | ok v => rw [hu] at he; cases he
      | panic x => rw [hu] at he; cases he
      | err e0 =>
          rw [hu] at he
          simp only [Outcome.err.injEq] at he; subst he
          exact mapErr_withSpan_top _ _ _ hu
  | .withOrig t => by
      simp only [hooksOf]
      exact metaTop_of_override _ _ rfl
        (fun m e he => hooksOf_metaTop o rh hrh t m e (map_err_inv he))
  | .probe mask mode => by simp only [hooksOf]; exact metaTop_of_default _ rfl
  | .synExpr => by simp only [hooksOf]; exact metaTop_of_default _ rfl
  | .synPath => by simp only [hooksOf]; exact metaTop_of_default _ rfl
  | .synIdent => by simp only [hooksOf]; exact metaTop_of_default _ rfl
  | .identString => by
      simp only [hooksOf]
      exact metaTop_of_override _ _ rfl (fun m e he => metaTop_of_default _ rfl m e he)
  | .synExprTy v => by simp only [hooksOf]; exact metaTop_of_default _ rfl
  | .synParse kind => by simp only [hooksOf]; exact metaTop_of_default _ rfl
  | .wherePreds => by simp only [hooksOf]; exact metaTop_of_default _ rfl
  | .renameRule => by simp only [hooksOf]; exact metaTop_of_default _ rfl
  | .punctuated kind => by simp only [hooksOf]; exact metaTop_of_default _ rfl
  | .lit => by simp only [hooksOf]; exact metaTop_of_default _ rfl
  | .litKind k => by simp only [hooksOf]; exact metaTop_of_default _ rfl
  | .vecLit k => by simp only [hooksOf]; exact metaTop_of_default _ rfl
  | .numArray sp => by simp only [hooksOf]; exact metaTop_of_default _ rfl
  | .synMeta => by
      simp only [hooksOf]
      exact metaTop_of_override _ _ rfl (fun m e he => by cases he)
  | .ignored => by
      simp only [hooksOf]
      exact metaTop_of_override _ _ rfl (fun m e he => by cases he)
  | .pathList => by simp only [hooksOf]; exact metaTop_of_default _ rfl
  | .callable => by simp only [hooksOf]; exact metaTop_of_default _ rfl
  | .map key _ t => by simp only [hooksOf]; exact metaTop_of_default _ rfl
  | .vec _ => by simp only [hooksOf]; exact metaTop_of_default _ rfl
  | .recv n => by simp only [hooksOf]; exact hrh n

theorem structHooks_metaTop {ν : Type} (form : StructForm ν) (fw : Option (Outcome ν)) (fn : Option ν) :
    (structHooks form fw fn).MetaTop := by
  cases form with
  | unit v => exact metaTop_of_default _ rfl
  | named s => exact metaTop_of_default _ rfl
  | newtype inner wrap =>
      refine metaTop_of_override _ _ rfl ?_
      intro m e he
      exact mapErr_withSpan_top _ _ e (map_err_inv he)

theorem enumHooks_metaTop {ν : Type} (e : SEnum ν) : (enumHooks e).MetaTop :=
  metaTop_of_default _ rfl

theorem fromMetaHooks_metaTop (env : Env.T) (rh : String → Hooks Val) (r : Options.RFromMeta) :
    (Env.fromMetaHooks env rh r).MetaTop := by
  unfold Env.fromMetaHooks
  simp only []
  split
  · exact structHooks_metaTop _ _ _
  · exact structHooks_metaTop _ _ _
  · exact structHooks_metaTop _ _ _
  · exact enumHooks_metaTop _

/-- every derived `FromMeta` receiver of every corpus answers `from_meta` with a span on top -/
theorem recvHooksF_metaTop (env : Env.T) : ∀ (fuel : Nat) (name : String), (Env.recvHooksF fuel env name).MetaTop
  | 0, _ => by simp only [Env.recvHooksF]; exact metaTop_of_default _ rfl
  | fuel + 1, name => by
      simp only [Env.recvHooksF]
      split
      · exact metaTop_of_default _ rfl
      · split
        · exact fromMetaHooks_metaTop env _ _
        · exact metaTop_of_default _ rfl

theorem recvHooks_metaTop (env : Env.T) (name : String) : (Env.recvHooks env name).MetaTop :=
  recvHooksF_metaTop env _ name

/-! ### end to end, item level: **every leaf explicit, inside the item**

  This is the first clause of the text at the level of the attribute item handed to a conversion:
  after flattening, *every* leaf of the error shows an explicit span, and it lies inside the item.
  (The older `recv_allWithin` / `corpus_allWithin` say "no span sticks out"; a leaf with no span
  at all satisfied them.) -/

/-- **C03, item level, derived receivers** -/
theorem recv_itemPlaced (env : Env.T) (name : String) (m : Meta) (hwf : m.spanWF = true)
    (ho : OracleArrWithin env.oracle m.span) (e : Err)
    (he : (Env.recvHooks env name).fromMeta m = .err e) : ItemPlaced m.span e :=
  itemPlaced_of_top (recv_allWithin env name m hwf ho e he) (recvHooks_metaTop env name m e he)

/-- **C03, item level, every target type over a corpus** -/
theorem corpus_itemPlaced (env : Env.T) (t : Ty) (m : Meta) (hwf : m.spanWF = true)
    (ho : OracleArrWithin env.oracle m.span) (e : Err)
    (he : (hooksOf env.oracle (Env.recvHooks env) t).fromMeta m = .err e) : ItemPlaced m.span e :=
  itemPlaced_of_top (corpus_allWithin env t m hwf ho e he)
    (hooksOf_metaTop env.oracle _ (recvHooks_metaTop env) t m e he)

/-- whatever has all its spans inside `A` and a span on top becomes compiler diagnostics that are
    all placed inside `A` -/
theorem toSyn_placed_of_top {A : Span} {e : Err} (hall : e.AllWithin A) (htop : e.span.isSome = true) :
    ∀ row ∈ e.toSyn, ∃ s, row.1 = some s ∧ s.within A = true := by
  intro row hrow
  unfold Err.toSyn at hrow
  split at hrow
  · simp only [List.mem_singleton] at hrow
    subst hrow
    cases hs : e.span with
    | none => rw [hs] at htop; cases htop
    | some s => exact ⟨s, by simp only [synRow, hs], hall.span s hs⟩
  · rw [List.mem_map] at hrow
    obtain ⟨l, hl, rfl⟩ := hrow
    obtain ⟨s, hs, hw⟩ := itemPlaced_of_top hall htop l hl
    exact ⟨s, by simp only [synRow, hs], hw⟩

/-- … so every compiler diagnostic made from a conversion error is placed inside the item -/
theorem corpus_diagnostics_placed (env : Env.T) (t : Ty) (m : Meta) (hwf : m.spanWF = true)
    (ho : OracleArrWithin env.oracle m.span) (e : Err)
    (he : (hooksOf env.oracle (Env.recvHooks env) t).fromMeta m = .err e) :
    ∀ row ∈ e.toSyn, ∃ s, row.1 = some s ∧ s.within m.span = true :=
  toSyn_placed_of_top (corpus_allWithin env t m hwf ho e he)
    (hooksOf_metaTop env.oracle _ (recvHooks_metaTop env) t m e he)

/-! ## 4. list level: the derived struct receiver

  What the text demands of `from_list` of a derived struct on the items `items` at the root of an
  attribute set: every leaf either concerns one of the items and then shows an explicit span inside
  *that item itself*, or reports a missing field and is then (being at the root) unspanned. -/

section structRecv
variable {ν : Type}

/-- the spans at which the items of a list are present -/
def presentOf (items : List NestedMeta) : List Span := items.map (·.span)

/-- the converter contract, tight reading: every span of an error returned for a well-formed item
    lies inside *that item* (discharged for every built-in conversion and derived receiver by
    `SpansIn.tight_fromMeta`, `hooksOf_spansIn_noOracle`, `recvHooks_spansIn`) -/
def ConvTight (r : SStruct ν) : Prop :=
  ∀ f ∈ r.fields, ∀ m : Meta, m.spanWF = true → (f.conv m).ErrsIn m.span

/-- what the text demands of the type behind a `flatten` field: its `from_list` is handed items of
    the same attribute set, so its leaves must be placed like the receiver's own -/
def FlattenPlaced (r : SStruct ν) : Prop :=
  ∀ f ∈ r.fields, f.flatten = true → ∀ (flat : List NestedMeta) (e : Err),
    (∀ n ∈ flat, n.spanWF = true) → f.fromList flat = .err e → ListPlaced none (presentOf flat) e

/-- the container-level `map` / `and_then` (user code) does not fail -/
def PostOk (r : SStruct ν) : Prop := ∀ v e, r.post v ≠ .err e

theorem LeafOk.mono {encl : Option Span} {p q : List Span} {l : Err} (h : LeafOk encl p l)
    (hpq : ∀ x ∈ p, x ∈ q) : LeafOk encl q l := by
  rcases h with ⟨x, hx, hw⟩ | h
  · exact Or.inl ⟨x, hpq x hx, hw⟩
  · exact Or.inr h

theorem isAbsence_at (l : Err) (loc : String) : IsAbsence (l.at loc) ↔ IsAbsence l := by
  cases l <;> exact Iff.rfl

theorem ListPlaced.of_item {encl : Option Span} {p : List Span} {A : Span} {e : Err} (hA : A ∈ p)
    (h : ItemPlaced A e) : ListPlaced encl p e :=
  fun l hl => Or.inl ⟨A, hA, h l hl⟩

theorem ItemPlaced.at {A : Span} {e : Err} (h : ItemPlaced A e) (loc : String) : ItemPlaced A (e.at loc) := by
  intro l hl
  rw [intoVec_at, List.mem_map] at hl
  obtain ⟨l0, hl0, rfl⟩ := hl
  exact at_within A l0 loc (h l0 hl0)

/-- whatever the item loop makes of a converter's error (`e.with_span(item).at(name)`) is placed
    inside the item, on every leaf -/
theorem itemPlaced_spanned {A : Span} {e : Err} (h : e.AllWithin A) : ItemPlaced A (e.withSpan A) :=
  itemPlaced_of_top (h.withSpan (within_refl A)) (withSpan_isSome e A)

theorem listPlaced_bundle {α : Type} {encl : Option Span} {p : List Span} {es : List Err} {b : Err}
    (h : ∀ e ∈ es, ListPlaced encl p e) (hb : (Err.bundleErr es : Outcome α) = .err b) :
    ListPlaced encl p b := by
  intro l hl
  rw [intoVec_bundleErr hb, List.mem_flatMap] at hl
  obtain ⟨e, he, hle⟩ := hl
  exact h e he l hle

/-! did-you-mean enrichment changes neither a leaf's span nor whether it reports an absence -/

theorem isAbsence_inherit (k : Kind) (ls : List String) (own inh : Option Span) :
    IsAbsence ((Err.leaf k ls own).inheritSpan inh) ↔ isAbsenceKind k = true := by
  cases own <;> cases inh <;> exact Iff.rfl

theorem locs_inherit (k : Kind) (ls : List String) (own inh : Option Span) :
    ((Err.leaf k ls own).inheritSpan inh).locs = ls := by
  cases own <;> cases inh <;> rfl

mutual
theorem addSiblingAlts_leaves (thr : Nat) (sc : String → List (String × Nat)) (pre : List String)
    (inh : Option Span) : (e : Err) → ∀ l' ∈ intoVecP pre inh (Suggest.addSiblingAlts thr sc e),
      ∃ l ∈ intoVecP pre inh e, l'.span = l.span ∧ l'.locs = l.locs ∧ (IsAbsence l' ↔ IsAbsence l)
  | .leaf k ls sp => by
      intro l' hl'
      simp only [Suggest.addSiblingAlts] at hl'
      split at hl'
      · exact ⟨l', hl', rfl, rfl, Iff.rfl⟩
      · split at hl'
        · simp only [intoVecP_leaf, List.mem_singleton] at hl'
          subst hl'
          refine ⟨_, by rw [intoVecP_leaf]; exact List.mem_singleton.mpr rfl, ?_, ?_, ?_⟩
          · rw [span_inherit', span_inherit']
          · rw [locs_inherit, locs_inherit]
          · rw [isAbsence_inherit, isAbsence_inherit]; exact Iff.rfl
        · exact ⟨l', hl', rfl, rfl, Iff.rfl⟩
  | .multi cs ls sp => by
      intro l' hl'
      simp only [Suggest.addSiblingAlts] at hl'
      split at hl'
      · exact ⟨l', hl', rfl, rfl, Iff.rfl⟩
      · simp only [intoVecP_multi] at hl' ⊢
        exact addSiblingAltsList_leaves thr sc (pre ++ ls) (sp.or inh) cs l' hl'
theorem addSiblingAltsList_leaves (thr : Nat) (sc : String → List (String × Nat)) (pre : List String)
    (inh : Option Span) : (es : List Err) → ∀ l' ∈ intoVecListP pre inh (Suggest.addSiblingAltsList thr sc es),
      ∃ l ∈ intoVecListP pre inh es, l'.span = l.span ∧ l'.locs = l.locs ∧ (IsAbsence l' ↔ IsAbsence l)
  | [] => by
      intro l' hl'
      simp only [Suggest.addSiblingAltsList, intoVecListP_nil, List.not_mem_nil] at hl'
  | c :: cs => by
      intro l' hl'
      simp only [Suggest.addSiblingAltsList, intoVecListP_cons, List.mem_append] at hl' ⊢
      rcases hl' with h | h
      · obtain ⟨l, hl, h1, h2, h3⟩ := addSiblingAlts_leaves thr sc pre inh c l' h
        exact ⟨l, Or.inl hl, h1, h2, h3⟩
      · obtain ⟨l, hl, h1, h2, h3⟩ := addSiblingAltsList_leaves thr sc pre inh cs l' h
        exact ⟨l, Or.inr hl, h1, h2, h3⟩
end

theorem LeafOk.congr {encl : Option Span} {p : List Span} {l l' : Err} (h : LeafOk encl p l)
    (hs : l'.span = l.span) (hl : l'.locs = l.locs) (ha : IsAbsence l' ↔ IsAbsence l) : LeafOk encl p l' := by
  rcases h with ⟨x, hx, s, h1, h2⟩ | ⟨h1, h2, h3⟩
  · exact Or.inl ⟨x, hx, s, by rw [hs]; exact h1, h2⟩
  · exact Or.inr ⟨ha.mpr h1, by rw [hs]; exact h2, by rw [hl]; exact h3⟩

theorem ListPlaced.addSiblingAlts {encl : Option Span} {p : List Span} {e : Err} (h : ListPlaced encl p e)
    (thr : Nat) (sc : String → List (String × Nat)) : ListPlaced encl p (Suggest.addSiblingAlts thr sc e) := by
  intro l' hl'
  obtain ⟨l, hl, h1, h2, h3⟩ := addSiblingAlts_leaves thr sc [] none e l' hl'
  exact (h l hl).congr h1 h2 h3

/-- a class `Q` of admissible leaves, relative to a pool of items that are present: it contains
    every leaf that shows an explicit span inside one of these items and every span-less, path-less
    absence -/
structure LeafClass (pool : List NestedMeta) (Q : Err → Prop) : Prop where
  item : ∀ it ∈ pool, ∀ l, SpannedWithin it.span l → Q l
  absent : ∀ l, IsAbsence l → l.span = none → l.locs = [] → Q l

/-- the class is closed under `at` -/
def LocClosed (Q : Err → Prop) : Prop := ∀ l loc, Q l → Q (l.at loc)

/-- every leaf of `e` is of class `Q` -/
def AllLeaves (Q : Err → Prop) (e : Err) : Prop := ∀ l ∈ intoVec e, Q l

theorem leafClass_listPlaced (items : List NestedMeta) :
    LeafClass items (LeafOk none (presentOf items)) where
  item := fun it hit _ hl => Or.inl ⟨it.span, List.mem_map.mpr ⟨it, hit, rfl⟩, hl⟩
  absent := fun _ ha hs hl => Or.inr ⟨ha, hs, hl⟩

/-- the invariant of the parser state while items of the pool are walked -/
def PInv (Q : Err → Prop) (pool : List NestedMeta) (st : PState ν) : Prop :=
  (∀ e ∈ st.errs, AllLeaves Q e) ∧ (∀ n ∈ st.flat, n ∈ pool)

theorem pinv_init (Q : Err → Prop) (pool : List NestedMeta) : PInv Q pool ({} : PState ν) :=
  ⟨fun e he => (by cases he), fun n hn => (by cases hn)⟩

theorem PInv.push {Q : Err → Prop} {pool : List NestedMeta} {st : PState ν} {e : Err} (h : PInv Q pool st)
    (he : AllLeaves Q e) : PInv Q pool (st.push e) := by
  refine ⟨?_, h.2⟩
  intro x hx
  simp only [PState.push, List.mem_append, List.mem_singleton] at hx
  rcases hx with hx | rfl
  · exact h.1 x hx
  · exact he

theorem allLeaves_of_item {Q : Err → Prop} {pool : List NestedMeta} (c : LeafClass pool Q) {it : NestedMeta}
    (hit : it ∈ pool) {e : Err} (h : ItemPlaced it.span e) : AllLeaves Q e :=
  fun l hl => c.item it hit l (h l hl)

/-- one iteration of the item loop: whatever it records is placed inside the item it looked at -/
theorem stepItem_pinv {Q : Err → Prop} {pool : List NestedMeta} (c : LeafClass pool Q) (r : SStruct ν)
    (hc : ConvTight r) (st st' : PState ν)
    (it : NestedMeta) (hit : it ∈ pool) (hwf : it.spanWF = true) (hp : PInv Q pool st)
    (h : stepItem r st it = .ok st') : PInv Q pool st' := by
  have unsp : ∀ e : Err, e.Unspanned → AllLeaves Q (e.withSpan it.span) :=
    fun e he => allLeaves_of_item c hit (itemPlaced_spanned (he.allWithin it.span))
  cases it with
  | lit l =>
      simp only [stepItem] at h
      cases h
      exact hp.push (unsp _ (unsp_unsupportedFormat _))
  | item inner =>
      simp only [stepItem] at h
      cases ha : r.arm inner.path'.toStr with
      | none =>
          rw [ha] at h
          simp only [] at h
          by_cases hf : r.hasFlatten = true
          · simp only [hf, if_true] at h; cases h
            refine ⟨hp.1, ?_⟩
            intro n hn
            simp only [List.mem_append, List.mem_singleton] at hn
            rcases hn with hn | rfl
            · exact hp.2 n hn
            · exact hit
          · simp only [hf] at h
            by_cases hu : r.allowUnknown = true
            · simp only [hu, if_true] at h; cases h; exact hp
            · simp only [hu] at h; cases h
              exact hp.push (unsp _ rfl)
      | some f =>
          have hm := arm_mem' r _ f ha
          have hcv' := hc f hm inner hwf
          have conv : ∀ e loc, f.conv inner = .err e → AllLeaves Q ((e.withSpan inner.span).at loc) :=
            fun e loc he => allLeaves_of_item c hit ((itemPlaced_spanned (hcv' e he)).at loc)
          rw [ha] at h
          simp only [] at h
          by_cases hmul : f.multiple = true
          · simp only [hmul, if_true] at h
            cases hcv : f.conv inner with
            | ok v => rw [hcv] at h; cases h; exact hp
            | err e => rw [hcv] at h; cases h; exact hp.push (conv e _ hcv)
            | panic m => rw [hcv] at h; cases h
          · simp only [hmul] at h
            by_cases hseen : (st.slot f.ident).seen = true
            · simp only [hseen] at h; cases h
              exact hp.push (unsp _ (unsp_new _))
            · simp only [hseen] at h
              cases hcv : f.conv inner with
              | ok v => rw [hcv] at h; cases h; exact hp
              | err e =>
                  rw [hcv] at h; cases h
                  exact PInv.push (st := st.set f.ident _) hp (conv e _ hcv)
              | panic m => rw [hcv] at h; cases h

theorem coreLoop_pinv {Q : Err → Prop} {pool : List NestedMeta} (c : LeafClass pool Q) (r : SStruct ν)
    (hc : ConvTight r) :
    (rest : List NestedMeta) → (∀ n ∈ rest, n ∈ pool ∧ n.spanWF = true) → ∀ (st st' : PState ν),
      PInv Q pool st → coreLoop r st rest = .ok st' → PInv Q pool st'
  | [], _, st, st', hp, h => by simp only [coreLoop] at h; cases h; exact hp
  | it :: rest, hi, st, st', hp, h => by
      simp only [coreLoop] at h
      cases hs : stepItem r st it with
      | error m => rw [hs] at h; cases h
      | ok st1 =>
          rw [hs] at h
          have h0 := hi it (List.mem_cons_self)
          exact coreLoop_pinv c r hc rest (fun n hn => hi n (List.mem_cons_of_mem _ hn)) st1 st'
            (stepItem_pinv c r hc st st1 it h0.1 h0.2 hp hs) h

theorem flattenInit_pinv {Q : Err → Prop} {pool : List NestedMeta} (c : LeafClass pool Q) (r : SStruct ν)
    (hf : FlattenPlaced r) (hwf : ∀ n ∈ pool, n.spanWF = true) (st st' : PState ν) (hp : PInv Q pool st)
    (h : flattenInit r st = .ok st') : PInv Q pool st' := by
  unfold flattenInit at h
  cases hfind : r.fields.find? (·.flatten) with
  | none => rw [hfind] at h; cases h; exact hp
  | some ff =>
      rw [hfind] at h
      simp only [] at h
      have hmem := List.mem_of_find?_eq_some hfind
      have hfl : ff.flatten = true := by simpa using List.find?_some hfind
      have hres : ∀ e, ListPlaced none (presentOf st.flat) e → AllLeaves Q e := by
        intro e he l hl
        rcases he l hl with ⟨x, hx, hw⟩ | ⟨h1, h2, h3⟩
        · obtain ⟨n, hn, rfl⟩ := List.mem_map.mp hx
          exact c.item n (hp.2 n hn) l hw
        · exact c.absent l h1 h2 h3
      have hfp := fun e => hf ff hmem hfl st.flat e (fun n hn => hwf n (hp.2 n hn))
      have hres' : ∀ e, (if r.names.isEmpty = true then ff.fromList st.flat else
          (ff.fromList st.flat).mapErr (Suggest.addSiblingAlts r.thr
            (fun n => r.names.map (fun a => (a, r.score n a))))) = .err e → AllLeaves Q e := by
        intro e he
        split at he
        · exact hres e (hfp e he)
        · cases hfl2 : ff.fromList st.flat with
          | ok v => rw [hfl2] at he; cases he
          | panic m => rw [hfl2] at he; cases he
          | err e0 =>
              rw [hfl2] at he
              simp only [Outcome.mapErr, Outcome.err.injEq] at he
              subst he
              exact hres _ ((hfp e0 hfl2).addSiblingAlts _ _)
      revert h hres'
      generalize (if r.names.isEmpty = true then ff.fromList st.flat else
          (ff.fromList st.flat).mapErr (Suggest.addSiblingAlts r.thr
            (fun n => r.names.map (fun a => (a, r.score n a))))) = res
      intro h hres'
      cases res with
      | ok v => cases h; exact hp
      | err e => cases h; exact PInv.push (st := st.set ff.ident _) hp (hres' e rfl)
      | panic m => cases h

/-- `CheckMissing`: a missing field is reported as an absence without a span -/
theorem checkMissing_pinv {Q : Err → Prop} {pool : List NestedMeta} (c : LeafClass pool Q) :
    (fs : List (SField ν)) → (st : PState ν) → PInv Q pool st → PInv Q pool (checkMissing fs st)
  | [], st, hp => by simp only [checkMissing]; exact hp
  | f :: rest, st, hp => by
      simp only [checkMissing]
      apply checkMissing_pinv c rest
      split
      · split
        · split
          · exact hp
          · refine hp.push ?_
            intro l hl
            simp only [Err.new, intoVec, intoVecP_leaf, List.mem_singleton] at hl
            subst hl
            exact c.absent _ rfl rfl rfl
        · exact hp
      · exact hp

theorem initFields_not_err (r : SStruct ν) (st : PState ν) : (fs : List (SField ν)) → ∀ e,
    initFields r st fs ≠ .err e := by
  intro fs e he
  induction fs with
  | nil => simp only [initFields] at he; cases he
  | cons f rest ih =>
      simp only [initFields] at he
      cases hf : initField r st f with
      | ok v =>
          rw [hf] at he
          exact ih (map_err_inv he)
      | panic m => rw [hf] at he; cases he
      | err e0 =>
          unfold initField at hf
          simp only [] at hf
          unfold defaultValue at hf
          split at hf
          · split at hf
            · split at hf
              · cases hf
              · split at hf
                · cases hf
                · split at hf <;> cases hf
            · cases hf
          · split at hf
            · split at hf
              · cases hf
              · split at hf
                · cases hf
                · split at hf <;> cases hf
            · split at hf <;> cases hf

theorem allLeaves_bundle {α : Type} {Q : Err → Prop} {es : List Err} {b : Err}
    (h : ∀ e ∈ es, AllLeaves Q e) (hb : (Err.bundleErr es : Outcome α) = .err b) : AllLeaves Q b := by
  intro l hl
  rw [intoVec_bundleErr hb, List.mem_flatMap] at hl
  obtain ⟨e, he, hle⟩ := hl
  exact h e he l hle

theorem AllLeaves.at {Q : Err → Prop} (c : LocClosed Q) {e : Err}
    (h : AllLeaves Q e) (loc : String) : AllLeaves Q (e.at loc) := by
  intro l hl
  rw [intoVec_at, List.mem_map] at hl
  obtain ⟨l0, hl0, rfl⟩ := hl
  exact c l0 loc (h l0 hl0)

/-- everything after the item walk -/
theorem finishStruct_placed {Q : Err → Prop} {pool : List NestedMeta} (c : LeafClass pool Q) (r : SStruct ν)
    (hf : FlattenPlaced r) (hpost : PostOk r)
    (hwf : ∀ n ∈ pool, n.spanWF = true) (flattenHere : Bool)
    (loc : Option String) (hloc : loc.isSome = true → LocClosed Q) (st : PState ν) (hp : PInv Q pool st)
    (e : Err) (he : finishStruct r flattenHere loc st = .err e) : AllLeaves Q e := by
  unfold finishStruct at he
  simp only [] at he
  have h1 : ∀ st1, (if flattenHere = true then flattenInit r st else .ok st) = .ok st1 → PInv Q pool st1 := by
    intro st1 h
    cases flattenHere with
    | true => simp only [if_true] at h; exact flattenInit_pinv c r hf hwf st st1 hp h
    | false => simp only [Bool.false_eq_true, if_false] at h; cases h; exact hp
  cases hs1 : (if flattenHere = true then flattenInit r st else Except.ok st) with
  | error m => rw [hs1] at he; cases he
  | ok st1 =>
      rw [hs1] at he
      have h2 := checkMissing_pinv c r.fields st1 (h1 st1 hs1)
      simp only [] at he
      cases hes : (checkMissing r.fields st1).errs with
      | cons x xs =>
          rw [hes] at he
          simp only [] at he
          have hall : ∀ y ∈ x :: xs, AllLeaves Q y := by rw [← hes]; exact h2.1
          cases loc with
          | none => exact allLeaves_bundle hall he
          | some l =>
              simp only [] at he
              cases hb : (Err.bundleErr (x :: xs) : Outcome ν) with
              | ok v => rw [hb] at he; cases he
              | panic m => rw [hb] at he; cases he
              | err b =>
                  rw [hb] at he
                  simp only [Outcome.mapErr, Outcome.err.injEq] at he
                  subst he
                  exact (allLeaves_bundle hall hb).at (hloc rfl) l
      | nil =>
          rw [hes] at he
          simp only [] at he
          cases hk : initFields r (checkMissing r.fields st1) r.fields with
          | ok kvs => rw [hk] at he; exact absurd he (hpost _ _)
          | err e0 => exact absurd hk (initFields_not_err r _ _ _)
          | panic m => rw [hk] at he; cases he

/-- **C03, list level, derived struct (side conditions: the type behind a `flatten` field places
    its leaves; user `and_then` does not fail).**  Every flattened leaf of the error `from_list`
    returns at the root of an attribute set either concerns one of the items and shows an explicit
    span inside that very item, or reports a missing field and shows no span. -/
theorem struct_fromList_placed_partial (r : SStruct ν) (hc : ConvTight r) (hf : FlattenPlaced r)
    (hpost : PostOk r) (items : List NestedMeta) (hwf : ∀ n ∈ items, n.spanWF = true) (e : Err)
    (he : Derive.fromList r items = .err e) : ListPlaced none (presentOf items) e := by
  unfold Derive.fromList at he
  cases h : coreLoop r {} items with
  | error m => rw [h] at he; cases he
  | ok st =>
      rw [h] at he
      exact finishStruct_placed (leafClass_listPlaced items) r hf hpost hwf true none (fun h => by cases h) st
        (coreLoop_pinv (leafClass_listPlaced items) r hc items (fun n hn => ⟨hn, hwf n hn⟩) {} st
          (pinv_init _ items) h) e he

/-- without a `flatten` field the side condition on it is void -/
theorem flattenPlaced_of_none (r : SStruct ν) (h : r.hasFlatten = false) : FlattenPlaced r := by
  intro f hf hfl
  exfalso
  have : r.hasFlatten = true := List.any_eq_true.mpr ⟨f, hf, hfl⟩
  rw [h] at this; cases this

/-- … and it holds when the type behind the `flatten` field is itself a derived struct that meets
    the hypotheses (its root absences are root absences of the same attribute set) -/
theorem flattenPlaced_of_struct (r : SStruct ν)
    (h : ∀ f ∈ r.fields, f.flatten = true →
      ∃ r2 : SStruct ν, f.fromList = Derive.fromList r2 ∧ ConvTight r2 ∧ FlattenPlaced r2 ∧ PostOk r2) :
    FlattenPlaced r := by
  intro f hf hfl flat e hwf he
  obtain ⟨r2, hfe, h1, h2, h3⟩ := h f hf hfl
  rw [hfe] at he
  exact struct_fromList_placed_partial r2 h1 h2 h3 flat hwf e he

/-! ### nested: the enclosing item's span for what is absent from it -/

theorem locs_withSpan (l : Err) (s : Span) : (l.withSpan s).locs = l.locs := by
  cases l with
  | leaf k ls own => cases own <;> rfl
  | multi cs ls own => cases own <;> rfl

theorem isAbsence_withSpan (l : Err) (s : Span) : IsAbsence (l.withSpan s) ↔ IsAbsence l := by
  cases l with
  | leaf k ls own => cases own <;> exact Iff.rfl
  | multi cs ls own => cases own <;> exact Iff.rfl

/-- the default `from_meta` turns root-level placement of the list into placement inside the
    enclosing item: leaves about present items keep their span, absences get the item's span -/
theorem ListPlaced.withSpan {p : List Span} {e : Err} (h : ListPlaced none p e) (A : Span) :
    ListPlaced (some A) p (e.withSpan A) := by
  intro l' hl'
  rw [intoVec_withSpan, List.mem_map] at hl'
  obtain ⟨l, hl, rfl⟩ := hl'
  rcases h l hl with ⟨x, hx, s, h1, h2⟩ | ⟨h1, h2, h3⟩
  · exact Or.inl ⟨x, hx, s, by rw [withSpan_keeps l s A h1]; exact h1, h2⟩
  · exact Or.inr ⟨(isAbsence_withSpan l A).mpr h1, withSpan_sets l A h2, by rw [locs_withSpan]; exact h3⟩

/-- **C03, nested item, derived struct**: converting the list item `name(items…)` with a derived
    struct receiver, every leaf concerns one of `items` and shows an explicit span inside that
    very item, or reports a field missing from `name(…)` and shows exactly the span of
    `name(…)` — the innermost item that encloses the absence. -/
theorem struct_fromMeta_placed_partial (r : SStruct ν) (hc : ConvTight r) (hf : FlattenPlaced r)
    (hpost : PostOk r) (fw : Option (Outcome ν)) (fn : Option ν)
    (p : Path) (items : List NestedMeta) (ts : Option Span) (toks : String) (sp : Span)
    (hwf : ∀ n ∈ items, n.spanWF = true) (e : Err)
    (he : (structHooks (.named r) fw fn).fromMeta (.list p items none ts toks sp) = .err e) :
    ListPlaced (some sp) (presentOf items) e := by
  have he' : (Derive.fromList r items).mapErr (·.withSpan sp) = .err e := he
  cases h : Derive.fromList r items with
  | ok v => rw [h] at he'; cases he'
  | panic m => rw [h] at he'; cases he'
  | err e0 =>
      rw [h] at he'
      simp only [Outcome.mapErr, Outcome.err.injEq] at he'
      subst he'
      exact (struct_fromList_placed_partial r hc hf hpost items hwf e0 h).withSpan sp

/-! ## 5. the derived enum receiver

  Text: whatever a derived enum says about the one item `v(…)` / `v = …` / `v` that selects a
  variant concerns that item (its name, its form, its contents) or something missing *inside* it,
  so every leaf must show an explicit span inside that item ("inside the offending item itself";
  "absent from a nested item: that enclosing item's span").

  Since the repair F29 the emitted `from_list` attaches the span of the selecting item to whatever
  the selected variant's arm returns (`with_span` never replaces), and the statements below need
  neither a condition on the *form* of the item nor one on the leaves. -/

/-- the pieces of a variant honour the contracts of the text -/
def VariantTight (v : SVariant ν) : Prop :=
  match v.kind with
  | .unit _ => True
  | .newtype fm _ _ => ∀ m : Meta, m.spanWF = true → (fm m).ErrsIn m.span
  | .struct s => ConvTight s ∧ FlattenPlaced s ∧ PostOk s

theorem unknownErr_unspanned (e : SEnum ν) (name : String) : (e.unknownErr name).Unspanned := by
  unfold SEnum.unknownErr
  split <;> rfl

theorem ItemPlaced.withSpan {A : Span} {e : Err} (h : ItemPlaced A e) (s : Span) :
    ItemPlaced A (e.withSpan s) := by
  intro l' hl'
  rw [intoVec_withSpan, List.mem_map] at hl'
  obtain ⟨l, hl, rfl⟩ := hl'
  obtain ⟨t, h1, h2⟩ := h l hl
  rw [withSpan_keeps l t s h1]
  exact ⟨t, h1, h2⟩

/-- `ErrorCheck::with_location`: the variant's name goes in front of what the same check reports
    without a location -/
theorem finishStruct_loc_factor (r : SStruct ν) (hpost : PostOk r) (flattenHere : Bool) (loc : String)
    (st : PState ν) (e : Err) (he : finishStruct r flattenHere (some loc) st = .err e) :
    ∃ e0, finishStruct r flattenHere none st = .err e0 ∧ e = e0.at loc := by
  unfold finishStruct at he ⊢
  simp only [] at he ⊢
  cases hs1 : (if flattenHere = true then flattenInit r st else Except.ok st) with
  | error m => rw [hs1] at he; cases he
  | ok st1 =>
      rw [hs1] at he
      simp only [] at he ⊢
      cases hes : (checkMissing r.fields st1).errs with
      | cons x xs =>
          rw [hes] at he
          simp only [] at he ⊢
          cases hb : (Err.bundleErr (x :: xs) : Outcome ν) with
          | ok v => rw [hb] at he; cases he
          | panic m => rw [hb] at he; cases he
          | err b =>
              rw [hb] at he
              simp only [Outcome.mapErr, Outcome.err.injEq] at he
              exact ⟨b, rfl, he.symm⟩
      | nil =>
          rw [hes] at he
          simp only [] at he
          cases hk : initFields r (checkMissing r.fields st1) r.fields with
          | ok kvs => rw [hk] at he; exact absurd he (hpost _ _)
          | err e0 => exact absurd hk (initFields_not_err r _ _ _)
          | panic m => rw [hk] at he; cases he

/-- the text's verdict on one flattened leaf of what an enum reports about the struct-variant item
    `name(items…)` spanned `sp`: the leaf concerns one of `items` and shows an explicit span inside
    that very item, or it reports something absent from `name(…)` — its path is the variant's name
    and nothing more — and shows **exactly the span of `name(…)`**, the innermost item that
    encloses the absence -/
def VariantLeafOk (name : String) (sp : Span) (present : List Span) (l : Err) : Prop :=
  (∃ p ∈ present, SpannedWithin p l) ∨ (IsAbsence l ∧ l.span = some sp ∧ l.locs = [name])

theorem locs_at (l : Err) (loc : String) : (l.at loc).locs = loc :: l.locs := by
  cases l <;> rfl

/-- **C03, derived enum, struct variant, tight reading.**  The selecting item is the list
    `name(items…)` and `name` selects a struct variant: every flattened leaf concerns one of
    `items` and is spanned inside it, or is an absence from `name(…)` located under the variant's
    name and showing exactly the span of `name(…)` — not the span of whatever encloses the enum
    (discrepancy D4 before the repair), and never no span (D3). -/
theorem enum_struct_variant_placed_partial (e : SEnum ν) (p : Path) (items : List NestedMeta)
    (ts : Option Span) (tk : String) (sp : Span) (v : SVariant ν) (s : SStruct ν)
    (harm : e.arm (Meta.list p items none ts tk sp).path'.toStr = some v) (hk : v.kind = .struct s)
    (hc : ConvTight s) (hf : FlattenPlaced s) (hpost : PostOk s)
    (hwf : ∀ n ∈ items, n.spanWF = true) (err : Err)
    (he : enumFromList e [.item (.list p items none ts tk sp)] = .err err) :
    ∀ l ∈ intoVec err, VariantLeafOk v.name sp (presentOf items) l := by
  simp only [enumFromList, harm, dataArm, hk] at he
  cases hcl : coreLoop s {} items with
  | error m => rw [hcl] at he; cases he
  | ok st =>
      rw [hcl] at he
      simp only [] at he
      cases hfin : finishStruct s true (some v.name) st with
      | ok x => rw [hfin] at he; cases he
      | panic m => rw [hfin] at he; cases he
      | err e1 =>
          rw [hfin] at he
          simp only [Outcome.mapErr, Outcome.err.injEq, Meta.span] at he
          subst he
          obtain ⟨e0, h0, rfl⟩ := finishStruct_loc_factor s hpost true v.name st e1 hfin
          have hlp : ListPlaced none (presentOf items) e0 :=
            finishStruct_placed (leafClass_listPlaced items) s hf hpost hwf true none (fun h => by cases h) st
              (coreLoop_pinv (leafClass_listPlaced items) s hc items (fun n hn => ⟨hn, hwf n hn⟩) {} st
                (pinv_init _ items) hcl) e0 h0
          intro l' hl'
          rw [intoVec_withSpan, intoVec_at, List.map_map, List.mem_map] at hl'
          obtain ⟨l, hl, rfl⟩ := hl'
          simp only [Function.comp]
          rcases hlp l hl with ⟨x, hx, t, h1, h2⟩ | ⟨h1, h2, h3⟩
          · have h1' : (l.at v.name).span = some t := by rw [at_span]; exact h1
            exact Or.inl ⟨x, hx, t, by rw [withSpan_keeps _ t sp h1']; exact h1', h2⟩
          · refine Or.inr ⟨(isAbsence_withSpan _ sp).mpr ((isAbsence_at l v.name).mpr h1),
              withSpan_sets _ sp (by rw [at_span]; exact h2), ?_⟩
            rw [locs_withSpan, locs_at, h3]

/-- **C03, derived enum, one selecting item** (side conditions: only the contracts of the pieces
    the variants are made of — `VariantTight`).  Whatever the form of the item, and whatever is
    missing inside it, every leaf shows an explicit span inside the item. -/
theorem enum_item_placed_partial (e : SEnum ν) (hv : ∀ v ∈ e.variants, VariantTight v)
    (nested : Meta) (hwf : nested.spanWF = true) (err : Err)
    (he : enumFromList e [.item nested] = .err err) : ItemPlaced nested.span err := by
  have he0 := he
  simp only [enumFromList] at he
  cases ha : e.arm nested.path'.toStr with
  | none =>
      rw [ha] at he
      simp only [Outcome.err.injEq] at he
      subst he
      exact itemPlaced_spanned ((unknownErr_unspanned e _).allWithin nested.span)
  | some v =>
      rw [ha] at he
      simp only [] at he
      have hvt := hv v (List.mem_of_find?_eq_some ha)
      unfold VariantTight at hvt
      cases hd : dataArm v nested with
      | ok x => rw [hd] at he; cases he
      | panic m => rw [hd] at he; cases he
      | err e1 =>
          rw [hd] at he
          simp only [Outcome.mapErr, Outcome.err.injEq] at he
          subst he
          unfold dataArm at hd
          cases hk : v.kind with
          | unit val =>
              rw [hk] at hd
              cases nested with
              | path p => cases hd
              | list p items bad ts tk sp =>
                  simp only [Outcome.err.injEq] at hd; subst hd
                  exact itemPlaced_spanned ((unsp_unsupportedFormat _).allWithin _)
              | nameValue p x tk sp =>
                  simp only [Outcome.err.injEq] at hd; subst hd
                  exact itemPlaced_spanned ((unsp_unsupportedFormat _).allWithin _)
          | newtype fm fn wrap =>
              rw [hk] at hd hvt
              simp only [] at hd hvt
              have hd1 := map_err_inv hd
              cases hfm : fm nested with
              | ok x => rw [hfm] at hd1; cases hd1
              | panic x => rw [hfm] at hd1; cases hd1
              | err e0 =>
                  rw [hfm] at hd1
                  simp only [Outcome.mapErr, Outcome.err.injEq] at hd1
                  subst hd1
                  exact itemPlaced_spanned ((hvt nested hwf e0 hfm).at _)
          | struct s =>
              rw [hk] at hd hvt
              simp only [] at hd hvt
              cases nested with
              | path p =>
                  simp only [Outcome.err.injEq] at hd; subst hd
                  exact itemPlaced_spanned ((unsp_unsupportedFormat _).allWithin _)
              | nameValue p x tk sp =>
                  simp only [Outcome.err.injEq] at hd; subst hd
                  exact itemPlaced_spanned ((unsp_unsupportedFormat _).allWithin _)
              | list p items bad ts tk sp =>
                  simp only [Meta.spanWF, Bool.and_eq_true] at hwf
                  cases bad with
                  | some b =>
                      obtain ⟨msg, bs⟩ := b
                      simp only [Outcome.err.injEq] at hd
                      subst hd
                      exact itemPlaced_spanned ((leaf_allWithin _ _ hwf.1.2).at _)
                  | none =>
                      have hmem := nestedWFList_mem items hwf.2
                      have ht := enum_struct_variant_placed_partial e p items ts tk sp v s ha hk hvt.1 hvt.2.1
                        hvt.2.2 (fun n hn => (hmem n hn).1) _ he0
                      intro l hl
                      rcases ht l hl with ⟨x, hx, t, h1, h2⟩ | ⟨_, h2, _⟩
                      · obtain ⟨n, hn, rfl⟩ := List.mem_map.mp hx
                        exact ⟨t, h1, within_trans h2 (hmem n hn).2⟩
                      · exact ⟨sp, h2, within_refl sp⟩

/-- **C03, derived enum at the root of an attribute set** (the enum behind `#[darling(flatten)]`,
    or `from_list` called directly), handed no item or one item: the leaves are placed as the text
    demands of a list — inside the one item present, or the root-level absence "too few items"
    with no span and no path.  (Two or more items and a bare literal: discrepancy D2, which
    stands — there is no single item at fault.) -/
theorem enum_fromList_placed_partial (e : SEnum ν) (hv : ∀ v ∈ e.variants, VariantTight v)
    (outer : List NestedMeta) (hlen : outer.length ≤ 1) (hnl : ∀ l, NestedMeta.lit l ∉ outer)
    (hwf : ∀ n ∈ outer, n.spanWF = true) (err : Err)
    (he : enumFromList e outer = .err err) : ListPlaced none (presentOf outer) err := by
  match outer, hlen, hnl, hwf, he with
  | [], _, _, _, he =>
      simp only [enumFromList, Outcome.err.injEq] at he
      subst he
      intro l hl
      simp only [Err.new, intoVec, intoVecP_leaf, List.mem_singleton] at hl
      subst hl
      exact Or.inr ⟨rfl, rfl, rfl⟩
  | [.lit l], _, hnl, _, _ => exact absurd (List.mem_singleton.mpr rfl) (hnl l)
  | [.item nested], _, _, hwf, he =>
      exact ListPlaced.of_item (List.mem_singleton.mpr rfl)
        (enum_item_placed_partial e hv nested (hwf _ (List.mem_singleton.mpr rfl)) err he)
  | _ :: _ :: _, hlen, _, _, _ => simp at hlen

end structRecv

/-! ## 6. element-level receivers (`FromDeriveInput`, `FromField`, `FromVariant`, `FromTypeParam`,
    `FromAttributes`)

  Text, read for a whole element: a leaf concerns an item present in one of the element's
  attributes and then shows an explicit span inside that item itself; or it concerns an attribute
  that cannot be read as a list of items at all and then shows an explicit span inside that
  attribute; or it reports an absence at the root of the attribute set; or it is a verdict on the
  whole element (unsupported shape, union) — the last two without a span. -/

section outer
variable {ν : Type}

def isVerdictKind : Kind → Bool
  | .unsupportedShape _ _ => true
  | _ => false

/-- a (flattened) leaf is a verdict on the shape of the whole element -/
def IsVerdict : Err → Prop
  | .leaf k _ _ => isVerdictKind k = true
  | .multi _ _ _ => False

/-- the items an attribute presents (`#[name(item, …)]` whose tokens parse) -/
def attrPool (a : Attr) : List NestedMeta :=
  match a.body with
  | .list _ items none _ _ _ => items
  | _ => []

def poolOf (attrs : List Attr) : List NestedMeta := attrs.flatMap attrPool

/-- the attribute presents no items: `#[name = value]`, or a list whose tokens do not parse -/
def Unreadable (a : Attr) : Prop :=
  match a.body with
  | .list _ _ (some _) _ _ _ => True
  | .nameValue _ _ _ _ => True
  | _ => False

def ElemLeafOk (attrs : List Attr) (l : Err) : Prop :=
  (∃ it ∈ poolOf attrs, SpannedWithin it.span l)
  ∨ (∃ a ∈ attrs, Unreadable a ∧ SpannedWithin a.body.span l)
  ∨ (IsAbsence l ∧ l.span = none ∧ l.locs = [])
  ∨ (IsVerdict l ∧ l.span = none)

/-- **element-level placement** of a whole error -/
def ElemPlaced (attrs : List Attr) (e : Err) : Prop := ∀ l ∈ intoVec e, ElemLeafOk attrs l

theorem leafClass_elem (attrs : List Attr) : LeafClass (poolOf attrs) (ElemLeafOk attrs) where
  item := fun it hit _ hl => Or.inl ⟨it, hit, hl⟩
  absent := fun _ ha hs hl => Or.inr (Or.inr (Or.inl ⟨ha, hs, hl⟩))

/-- the user's function behind the `attrs` magic field does not fail -/
def AttrsFnOk (r : SOuter ν) : Prop := ∀ mk, r.attrsField = some mk → ∀ fwd e, mk fwd ≠ .err e

/-- the shape validation answers with verdicts only, none of them spanned -/
def ValidateVerdict (validate : Outcome Unit) : Prop :=
  ∀ e, validate = .err e → ∀ l ∈ intoVec e, IsVerdict l ∧ l.span = none

theorem pool_mem {attrs : List Attr} {a : Attr} (ha : a ∈ attrs) {n : NestedMeta} (hn : n ∈ attrPool a) :
    n ∈ poolOf attrs := List.mem_flatMap.mpr ⟨a, ha, hn⟩

theorem pool_wf {attrs : List Attr} (hwf : ∀ a ∈ attrs, a.body.spanWF = true) :
    ∀ n ∈ poolOf attrs, n.spanWF = true := by
  intro n hn
  obtain ⟨a, ha, hna⟩ := List.mem_flatMap.mp hn
  have hb := hwf a ha
  unfold attrPool at hna
  split at hna
  · rename_i p items ts tk sp hbody
    rw [hbody] at hb
    simp only [Meta.spanWF, Bool.and_eq_true] at hb
    exact (nestedWFList_mem items hb.2 n hna).1
  · cases hna

/-- one attribute of the element -/
theorem stepAttr_pinv (r : SOuter ν) (hc : ConvTight r.fields) (attrs : List Attr)
    (hwf : ∀ a ∈ attrs, a.body.spanWF = true) (a : Attr) (ha : a ∈ attrs) (st st' : XState ν)
    (hp : PInv (ElemLeafOk attrs) (poolOf attrs) st.p) (h : stepAttr r st a = .ok st') :
    PInv (ElemLeafOk attrs) (poolOf attrs) st'.p := by
  have c := leafClass_elem attrs
  have hpw := pool_wf hwf
  unfold stepAttr at h
  simp only [] at h
  split at h
  · -- the attribute is one of the receiver's own
    cases hb : a.body with
    | path p =>
        simp only [attrItems, hb] at h
        cases h; exact hp
    | nameValue p x tk sp =>
        simp only [attrItems, hb] at h
        cases h
        refine hp.push ?_
        intro l hl
        have hu : Unreadable a := by unfold Unreadable; rw [hb]; trivial
        have := itemPlaced_spanned ((unsp_custom _).allWithin sp) l hl
        exact Or.inr (Or.inl ⟨a, ha, hu, by rw [hb]; exact this⟩)
    | list p items bad ts tk sp =>
        cases bad with
        | some b =>
            obtain ⟨msg, bs⟩ := b
            simp only [attrItems, hb] at h
            cases h
            refine hp.push ?_
            intro l hl
            simp only [intoVec, intoVecP_leaf, List.mem_singleton] at hl
            subst hl
            have hu : Unreadable a := by unfold Unreadable; rw [hb]; trivial
            have hbw := hwf a ha
            rw [hb] at hbw
            simp only [Meta.spanWF, Bool.and_eq_true] at hbw
            exact Or.inr (Or.inl ⟨a, ha, hu, bs, rfl, by rw [hb]; exact hbw.1.2⟩)
        | none =>
            simp only [attrItems, hb] at h
            have hsub : ∀ n ∈ items, n ∈ poolOf attrs ∧ n.spanWF = true := by
              intro n hn
              have : n ∈ poolOf attrs := pool_mem ha (by unfold attrPool; rw [hb]; exact hn)
              exact ⟨this, hpw n this⟩
            cases items with
            | nil => cases h; exact hp
            | cons i0 rest =>
                simp only [] at h
                cases hcl : coreLoop r.fields st.p (i0 :: rest) with
                | error m => rw [hcl] at h; cases h
                | ok p1 =>
                    rw [hcl] at h
                    cases h
                    exact coreLoop_pinv c r.fields hc (i0 :: rest) hsub st.p p1 hp hcl
  · split at h
    · split at h
      · cases h; exact hp
      · split at h <;> (cases h; exact hp)
      · cases h; exact hp
    · cases h; exact hp

theorem attrLoop_pinv (r : SOuter ν) (hc : ConvTight r.fields) (attrs : List Attr)
    (hwf : ∀ a ∈ attrs, a.body.spanWF = true) :
    (rest : List Attr) → (∀ a ∈ rest, a ∈ attrs) → ∀ (st st' : XState ν),
      PInv (ElemLeafOk attrs) (poolOf attrs) st.p → attrLoop r st rest = .ok st' →
      PInv (ElemLeafOk attrs) (poolOf attrs) st'.p
  | [], _, st, st', hp, h => by simp only [attrLoop] at h; cases h; exact hp
  | a :: rest, hi, st, st', hp, h => by
      simp only [attrLoop] at h
      cases hs : stepAttr r st a with
      | error m => rw [hs] at h; cases h
      | ok st1 =>
          rw [hs] at h
          exact attrLoop_pinv r hc attrs hwf rest (fun x hx => hi x (List.mem_cons_of_mem _ hx)) st1 st'
            (stepAttr_pinv r hc attrs hwf a (hi a List.mem_cons_self) st st1 hp hs) h

theorem extract_pinv (r : SOuter ν) (hc : ConvTight r.fields) (hattrs : AttrsFnOk r) (attrs : List Attr)
    (hwf : ∀ a ∈ attrs, a.body.spanWF = true) (p : PState ν) (av : Option ν)
    (h : extract r attrs = .ok (p, av)) : PInv (ElemLeafOk attrs) (poolOf attrs) p := by
  unfold extract at h
  simp only [] at h
  have hw : ∀ st, (if (!(r.willParseAny || r.willFwdAny)) = true then (Except.ok {} : Except String (XState ν))
      else attrLoop r {} attrs) = .ok st → PInv (ElemLeafOk attrs) (poolOf attrs) st.p := by
    intro st hst
    split at hst
    · cases hst; exact pinv_init _ _
    · exact attrLoop_pinv r hc attrs hwf attrs (fun a ha => ha) {} st (pinv_init _ _) hst
  cases hwk : (if (!(r.willParseAny || r.willFwdAny)) = true then (Except.ok {} : Except String (XState ν))
      else attrLoop r {} attrs) with
  | error m => rw [hwk] at h; cases h
  | ok st =>
      rw [hwk] at h
      simp only [] at h
      have hp := hw st hwk
      unfold attrsValue at h
      cases haf : r.attrsField with
      | none => rw [haf] at h; cases h; exact hp
      | some mk =>
          rw [haf] at h
          simp only [] at h
          cases hmk : mk st.fwd with
          | ok v => rw [hmk] at h; cases h; exact hp
          | err e => exact absurd hmk (hattrs mk haf _ _)
          | panic m => rw [hmk] at h; cases h

theorem lateValues_err : (late : List (String × Outcome ν)) → ∀ e, lateValues late = .err e →
    ∃ k o, (k, o) ∈ late ∧ o = .err e
  | [], e, h => by simp only [lateValues] at h; cases h
  | (k, o) :: rest, e, h => by
      simp only [lateValues] at h
      cases o with
      | ok v =>
          simp only [] at h
          obtain ⟨k', o', hm, ho⟩ := lateValues_err rest e (map_err_inv h)
          exact ⟨k', o', List.mem_cons_of_mem _ hm, ho⟩
      | err e0 =>
          simp only [Outcome.err.injEq] at h
          subst h
          exact ⟨k, _, List.mem_cons_self, rfl⟩
      | panic m => cases h

theorem assemble_err (r : SOuter ν) (hpost : PostOk r.fields) (st : PState ν) (av : Option ν)
    (late : List (String × Outcome ν)) (early : List (String × ν)) (build : List (String × ν) → ν) (e : Err)
    (h : assemble r st av late early build = .err e) : ∃ k o, (k, o) ∈ late ∧ o = .err e := by
  unfold assemble at h
  have hap : ∀ x, attrsPart r av ≠ .err x := by
    intro x hx
    unfold attrsPart at hx
    split at hx <;> cases hx
  cases h1 : attrsPart r av with
  | err x => exact absurd h1 (hap x)
  | panic m => rw [h1] at h; simp only [] at h; cases h
  | ok a =>
      cases h2 : lateValues late with
      | err x =>
          rw [h1, h2] at h
          cases h3 : initFields r.fields st r.fields.fields with
          | ok i => rw [h3] at h; simp only [Outcome.err.injEq] at h; subst h; exact lateValues_err late _ h2
          | panic m => rw [h3] at h; cases h
          | err y => exact absurd h3 (initFields_not_err _ _ _ _)
      | panic m => rw [h1, h2] at h; simp only [] at h; cases h
      | ok l =>
          cases h3 : initFields r.fields st r.fields.fields with
          | ok i => rw [h1, h2, h3] at h; exact absurd h (hpost _ _)
          | panic m => rw [h1, h2, h3] at h; cases h
          | err y => exact absurd h3 (initFields_not_err _ _ _ _)

theorem finishChecked_placed (r : SOuter ν) (hf : FlattenPlaced r.fields) (hpost : PostOk r.fields)
    (attrs : List Attr) (hwf : ∀ a ∈ attrs, a.body.spanWF = true) (st : PState ν)
    (hp : PInv (ElemLeafOk attrs) (poolOf attrs) st) (av : Option ν)
    (late : List (String × Outcome ν)) (early : List (String × ν)) (build : List (String × ν) → ν) (e : Err)
    (h : finishChecked r st av late early build = .err e) :
    ElemPlaced attrs e ∨ ∃ k o, (k, o) ∈ late ∧ o = .err e := by
  have c := leafClass_elem attrs
  unfold finishChecked at h
  cases hfi : flattenInit r.fields st with
  | error m => rw [hfi] at h; cases h
  | ok st1 =>
      rw [hfi] at h
      simp only [] at h
      have h1 := flattenInit_pinv c r.fields hf (pool_wf hwf) st st1 hp hfi
      have h2 := checkMissing_pinv c r.fields.fields st1 h1
      cases hes : (checkMissing r.fields.fields st1).errs with
      | cons x xs =>
          rw [hes] at h
          simp only [] at h
          exact Or.inl (allLeaves_bundle (by rw [← hes]; exact h2.1) h)
      | nil =>
          rw [hes] at h
          simp only [] at h
          exact Or.inr (assemble_err r hpost _ av late early build e h)

/-- **C03, element level (side conditions: the type behind a `flatten` field places its leaves; the
    user's `and_then` / `attrs` functions do not fail).**  `extract` then `finishOuter` is how every
    element-level `from_*` is composed (`Env.runOuter`).  The error of an element-level receiver
    is either the unchanged error of one of the `?`-chained body / generics conversions, or every
    one of its leaves is placed as the text demands: inside the offending item itself, inside an
    unreadable attribute, or — root absences and shape verdicts only — without a span. -/
theorem outer_placed_partial (r : SOuter ν) (hc : ConvTight r.fields) (hf : FlattenPlaced r.fields)
    (hpost : PostOk r.fields) (hattrs : AttrsFnOk r) (attrs : List Attr)
    (hwf : ∀ a ∈ attrs, a.body.spanWF = true) (validate : Outcome Unit) (hval : ValidateVerdict validate)
    (late : List (String × Outcome ν)) (early : List (String × ν)) (build : List (String × ν) → ν)
    (p : PState ν) (av : Option ν) (hx : extract r attrs = .ok (p, av)) (e : Err)
    (he : finishOuter r p av validate late early build = .err e) :
    ElemPlaced attrs e ∨ ∃ k o, (k, o) ∈ late ∧ o = .err e := by
  have hp := extract_pinv r hc hattrs attrs hwf p av hx
  unfold finishOuter at he
  cases hv : validate with
  | panic m => rw [hv] at he; cases he
  | ok u => rw [hv] at he; exact finishChecked_placed r hf hpost attrs hwf p hp av late early build e he
  | err ve =>
      rw [hv] at he
      refine finishChecked_placed r hf hpost attrs hwf (p.push ve) (hp.push ?_) av late early build e he
      intro l hl
      exact Or.inr (Or.inr (Or.inr (hval ve hv l hl)))

/-! ### the emitted `__validate_body` answers with shape verdicts only -/

theorem display_not_err (s : ShapeSet) (e : Err) : s.display ≠ .err e := by
  unfold ShapeSet.display
  split <;> intro h <;> cases h

theorem check_verdict (s : ShapeSet) (sh : Shape) : ValidateVerdict (s.check sh) := by
  intro e he l hl
  unfold ShapeSet.check at he
  split at he
  · cases he
  · cases hd : s.display with
    | ok d =>
        rw [hd] at he
        simp only [Outcome.err.injEq] at he
        subst he
        simp only [Err.new, intoVec, intoVecP_leaf, List.mem_singleton] at hl
        subst hl
        exact ⟨rfl, rfl⟩
    | err x => exact absurd hd (display_not_err s x)
    | panic m => rw [hd] at he; cases he

theorem checkVariants_verdict (s : ShapeSet) : (vs : List Shape) → (errs out : List Err) →
    (∀ x ∈ errs, ∀ l ∈ intoVec x, IsVerdict l ∧ l.span = none) →
    DISS.checkVariants s errs vs = .ok out → ∀ x ∈ out, ∀ l ∈ intoVec x, IsVerdict l ∧ l.span = none
  | [], errs, out, h, he => by
      simp only [DISS.checkVariants, Outcome.ok.injEq] at he
      subst he; exact h
  | v :: vs, errs, out, h, he => by
      simp only [DISS.checkVariants] at he
      cases hc : s.check v with
      | ok u => rw [hc] at he; exact checkVariants_verdict s vs errs out h he
      | panic m => rw [hc] at he; cases he
      | err e =>
          rw [hc] at he
          refine checkVariants_verdict s vs (errs ++ [e]) out ?_ he
          intro x hx
          simp only [List.mem_append, List.mem_singleton] at hx
          rcases hx with hx | rfl
          · exact h x hx
          · exact check_verdict s v x hc

theorem checkVariants_not_err (s : ShapeSet) : (vs : List Shape) → (errs : List Err) → ∀ e,
    DISS.checkVariants s errs vs ≠ .err e
  | [], errs, e => by simp only [DISS.checkVariants]; intro h; cases h
  | v :: vs, errs, e => by
      simp only [DISS.checkVariants]
      cases hc : s.check v with
      | ok u => exact checkVariants_not_err s vs errs e
      | panic m => intro h; cases h
      | err x => exact checkVariants_not_err s vs _ e

/-- **the shape validation of every `supports(..)` set honours `ValidateVerdict`** -/
theorem validateBody_verdict (d : DISS) (b : BodyShape) : ValidateVerdict (d.validateBody b) := by
  intro e he l hl
  unfold DISS.validateBody at he
  split at he
  · cases he
  · have leafCase : ∀ k, e = Err.new k → isVerdictKind k = true → IsVerdict l ∧ l.span = none := by
      intro k hk hv
      subst hk
      simp only [Err.new, intoVec, intoVecP_leaf, List.mem_singleton] at hl
      subst hl
      exact ⟨hv, rfl⟩
    split at he
    · -- enum
      unfold DISS.validateEnum at he
      split at he
      · cases hd : d.structValues.toShapeSet.display with
        | ok x => rw [hd] at he; simp only [Outcome.err.injEq] at he; exact leafCase _ he.symm rfl
        | err x => exact absurd hd (display_not_err _ x)
        | panic m => rw [hd] at he; cases he
      · rename_i variants _
        cases hcv : DISS.checkVariants d.enumValues.toShapeSet [] variants with
        | err x => exact absurd hcv (checkVariants_not_err _ _ _ _)
        | panic m => rw [hcv] at he; cases he
        | ok out =>
            rw [hcv] at he
            have hall := checkVariants_verdict _ variants [] out (fun x hx => by cases hx) hcv
            cases out with
            | nil => cases he
            | cons x xs =>
                simp only [] at he
                rw [intoVec_bundleErr he, List.mem_flatMap] at hl
                obtain ⟨y, hy, hly⟩ := hl
                exact hall y hy l hly
    · -- struct
      unfold DISS.validateStruct at he
      split at he
      · cases hd : d.enumValues.toShapeSet.display with
        | ok x => rw [hd] at he; simp only [Outcome.err.injEq] at he; exact leafCase _ he.symm rfl
        | err x => exact absurd hd (display_not_err _ x)
        | panic m => rw [hd] at he; cases he
      · exact check_verdict _ _ e he l hl
    · simp only [Outcome.err.injEq] at he; exact leafCase _ he.symm rfl

end outer


/-! ## 7. the contracts discharged for the receivers of a corpus -/

/-- the `ExprArray` oracle answers nothing (no target re-parses a string into an array in the run
    at hand); then the oracle hypothesis of the span theorems holds for every ambient span at once -/
def NoArrays (o : Oracle) : Prop := ∀ s, o.parseArr s = none

theorem noArrays_within {o : Oracle} (h : NoArrays o) (A : Span) : OracleArrWithin o A := by
  intro s x hx
  rw [h s] at hx
  cases hx

/-- the struct parser `Env` assembles for any derived declaration of any corpus honours the tight
    converter contract, whatever the other receivers of the corpus are, at any nesting depth -/
theorem semStruct_convTight (env : Env.T) (hna : NoArrays env.oracle) (core : Options.RCore)
    (fields : List Options.RField) (build : List (String × Val) → Val) :
    ConvTight (Env.semStruct env (Env.recvHooks env) core fields build) := by
  intro sf hsf m hwf
  simp only [Env.semStruct, List.mem_map] at hsf
  obtain ⟨f, _, rfl⟩ := hsf
  exact semField_conv_errsIn env (Env.recvHooks env)
    (fun n => recvHooks_spansIn env m.span (noArrays_within hna m.span) n)
    (noArrays_within hna m.span) f m hwf (within_refl _)

theorem semStruct_noFlatten (env : Env.T) (core : Options.RCore) (fields : List Options.RField)
    (build : List (String × Val) → Val) (h : ∀ f ∈ fields, f.flatten = false) :
    FlattenPlaced (Env.semStruct env (Env.recvHooks env) core fields build) := by
  apply flattenPlaced_of_none
  cases hh : (Env.semStruct env (Env.recvHooks env) core fields build).hasFlatten with
  | false => rfl
  | true =>
      exfalso
      obtain ⟨sf, hsf, hfl⟩ := List.any_eq_true.mp hh
      simp only [Env.semStruct, List.mem_map] at hsf
      obtain ⟨f, hf, rfl⟩ := hsf
      have := h f hf
      simp only [Env.semField] at hfl
      rw [this] at hfl
      cases hfl

/-- **C03, list level, any derived struct of any corpus without a `flatten` field of its own**
    (nested receivers are arbitrary: enums, maps, structs with `flatten`, to any depth) -/
theorem corpus_struct_fromList_placed_partial (env : Env.T) (hna : NoArrays env.oracle)
    (core : Options.RCore) (fields : List Options.RField) (build : List (String × Val) → Val)
    (hnf : ∀ f ∈ fields, f.flatten = false)
    (hpost : PostOk (Env.semStruct env (Env.recvHooks env) core fields build))
    (items : List NestedMeta) (hwf : ∀ n ∈ items, n.spanWF = true) (e : Err)
    (he : Derive.fromList (Env.semStruct env (Env.recvHooks env) core fields build) items = .err e) :
    ListPlaced none (presentOf items) e :=
  struct_fromList_placed_partial _ (semStruct_convTight env hna core fields build)
    (semStruct_noFlatten env core fields build hnf) hpost items hwf e he

/-- the semantic variant `Env.fromMetaHooks` builds for a declared variant (a name for that
    sub-term of the model, nothing else) -/
def corpusVariant (env : Env.T) (core : Options.RCore) (v : Options.RVariant) : SVariant Val :=
  { name := v.name, skip := v.skip,
    kind := match v.style, v.fields with
      | .unit, _ => .unit (.variant core.ident v.ident .unit)
      | .tuple, [f] =>
          let h := hooksOf env.oracle (Env.recvHooks env) f.ty
          .newtype h.fromMeta h.fromNone (fun x => .variant core.ident v.ident x)
      | _, fs =>
          .struct (Env.semStruct env (Env.recvHooks env)
            { core with allowUnknown := v.allowUnknown, dflt := core.dflt, post := none } fs
            (fun kvs => .variant core.ident v.ident (.record v.ident kvs))) }

/-- the derived enum receiver of a corpus *is* `enumHooks` over these variants -/
theorem fromMetaHooks_enum (env : Env.T) (r : Options.RFromMeta) (variants : List Options.RVariant)
    (hd : r.base.data = .enum variants) :
    ∃ fw fn, Env.fromMetaHooks env (Env.recvHooks env) r
      = enumHooks { variants := variants.map (corpusVariant env r.base), score := env.oracle.score,
                    thr := env.thr, fromWord := fw, fromNone := fn } := by
  unfold Env.fromMetaHooks
  simp only [hd]
  exact ⟨_, _, rfl⟩

/-- every variant of every derived enum of every corpus honours the contracts, provided its own
    fields are not `flatten` fields -/
theorem corpusVariant_tight (env : Env.T) (hna : NoArrays env.oracle) (core : Options.RCore)
    (v : Options.RVariant) (hnf : ∀ f ∈ v.fields, f.flatten = false) :
    VariantTight (corpusVariant env core v) := by
  have strct : ∀ (c : Options.RCore) (b : List (String × Val) → Val), c.post = none →
      ConvTight (Env.semStruct env (Env.recvHooks env) c v.fields b) ∧
      FlattenPlaced (Env.semStruct env (Env.recvHooks env) c v.fields b) ∧
      PostOk (Env.semStruct env (Env.recvHooks env) c v.fields b) := by
    intro c b hc
    refine ⟨semStruct_convTight env hna c v.fields b, semStruct_noFlatten env c v.fields b hnf, ?_⟩
    intro x e he
    simp only [Env.semStruct, hc, Option.bind_none] at he
    cases he
  unfold VariantTight corpusVariant
  simp only []
  cases hs : v.style with
  | unit => trivial
  | named => exact strct _ _ rfl
  | tuple =>
      cases hf : v.fields with
      | nil => simp only []; rw [← hf]; exact strct _ _ rfl
      | cons f rest =>
          cases rest with
          | nil =>
              intro m hwf
              exact (corpus_spansIn env m.span (noArrays_within hna m.span) f.ty).fromMeta m hwf (within_refl _)
          | cons g rest => simp only []; rw [← hf]; exact strct _ _ rfl

/-- **C03, derived enum of any corpus, one selecting item**: whatever its form, whatever is missing
    inside it, every leaf shows an explicit span inside the item (no condition on the input beyond
    well-formed spans; the variants' own fields are not `flatten` fields) -/
theorem corpus_enum_item_placed_partial (env : Env.T) (hna : NoArrays env.oracle) (core : Options.RCore)
    (variants : List Options.RVariant) (hnf : ∀ v ∈ variants, ∀ f ∈ v.fields, f.flatten = false)
    (fw : Option (Outcome Val)) (fn : Option Val)
    (nested : Meta) (hwf : nested.spanWF = true)
    (err : Err)
    (he : (enumHooks { variants := variants.map (corpusVariant env core), score := env.oracle.score,
                       thr := env.thr, fromWord := fw, fromNone := fn }).fromList [.item nested] = .err err) :
    ItemPlaced nested.span err := by
  refine enum_item_placed_partial _ ?_ nested hwf err he
  intro sv hsv
  simp only [List.mem_map] at hsv
  obtain ⟨rv, hrv, rfl⟩ := hsv
  exact corpusVariant_tight env hna core rv (hnf rv hrv)

/-! ## 8. "never replaced", bundling, flattening, diagnostics — by position

  `C04.spanAt e a` is the innermost span among the nodes met from the leaf at address `a` up to the
  root (defined by position in `C04Spec`, with no reference to `into_vec`). -/

/-- one public operation that can touch a span or a path -/
inductive Op where
  | withSpan (s : Span)
  | «at» (l : String)

def Op.apply : Op → Err → Err
  | .withSpan s, e => e.withSpan s
  | .at l, e => e.at l

/-- any sequence of `with_span` / `at` calls, in any order -/
def applyOps (ops : List Op) (e : Err) : Err := ops.foldl (fun e o => o.apply e) e

/-- **a span once attached is never replaced** — whatever is called afterwards, in any order -/
theorem span_survives_ops (ops : List Op) (e : Err) (s : Span) (h : e.span = some s) :
    (applyOps ops e).span = some s := by
  induction ops generalizing e with
  | nil => exact h
  | cons o rest ih =>
      apply ih
      cases o with
      | withSpan t => show (e.withSpan t).span = some s; rw [withSpan_keeps e s t h]; exact h
      | «at» l => show (e.at l).span = some s; rw [at_span]; exact h

/-- … and the same leaf by leaf: the flattened leaves of the result are the flattened leaves of
    the original with the same calls applied to each -/
theorem intoVec_applyOps (ops : List Op) (e : Err) : intoVec (applyOps ops e) = (intoVec e).map (applyOps ops) := by
  induction ops generalizing e with
  | nil => exact (List.map_id _).symm
  | cons o rest ih =>
      show intoVec (applyOps rest (o.apply e)) = _
      rw [ih]
      cases o with
      | withSpan t =>
          show (intoVec (e.withSpan t)).map _ = _
          rw [intoVec_withSpan, List.map_map]; rfl
      | «at» l =>
          show (intoVec (e.at l)).map _ = _
          rw [intoVec_at, List.map_map]; rfl

/-- so no leaf that showed a span ever shows another one -/
theorem leaf_span_survives_ops (ops : List Op) (e : Err) :
    ∀ l' ∈ intoVec (applyOps ops e), ∃ l ∈ intoVec e, ∀ s, l.span = some s → l'.span = some s := by
  intro l' hl'
  rw [intoVec_applyOps, List.mem_map] at hl'
  obtain ⟨l, hl, rfl⟩ := hl'
  exact ⟨l, hl, fun s hs => span_survives_ops ops l s hs⟩

/-- what every flattened leaf shows: its own span, else that of the nearest enclosing bundle
    that has one (by position) -/
theorem shown_eq_nearest (e : Err) : (intoVec e).map Err.span = (C04.leafAddrs e).map (C04.spanAt e) := by
  rw [C04.intoVec_spec, List.map_map]
  rfl

/-- **flattening** preserves each leaf's span or gives it its enclosing bundle's -/
theorem flatten_shows_nearest {e f : Err} (hf : e.flatten = .ok f) :
    f.intoIter.map Err.span = (C04.leafAddrs e).map (C04.spanAt e) := by
  rw [flatten_intoIter hf]; exact shown_eq_nearest e

/-- **conversion to compiler diagnostics** places each diagnostic at exactly that span -/
theorem toSyn_shows_nearest {e : Err} (h : C04.Reachable e) :
    e.toSyn.map (·.1) = (C04.leafAddrs e).map (C04.spanAt e) := by
  rw [C04.toSyn_spec h, List.map_map]
  apply List.map_congr_left
  intro a _
  simp only [Function.comp, C04.diagAt]
  cases C04.spanAt e a <;> rfl

/-- **an unspanned leaf's diagnostic includes the location path** (and only those do) -/
theorem toSyn_unspanned_shows_path {e : Err} (h : C04.Reachable e) :
    ∀ row ∈ e.toSyn, row.1 = none →
      ∃ a ∈ C04.leafAddrs e, row.2 = (C04.kindAt e a).msg ++ C04.atSuffix (C04.pathAt e a) := by
  intro row hrow hnone
  rw [C04.toSyn_spec h, List.mem_map] at hrow
  obtain ⟨a, ha, rfl⟩ := hrow
  refine ⟨a, ha, ?_⟩
  unfold C04.diagAt at hnone ⊢
  cases hsp : C04.spanAt e a with
  | none => rfl
  | some sp => rw [hsp] at hnone; cases hnone

/-- **bundling** preserves what every leaf shows -/
theorem shown_multiple {es : List Err} {b : Err} (h : Err.multiple es = .ok b) :
    (intoVec b).map Err.span = es.flatMap (fun e => (intoVec e).map Err.span) := by
  rw [intoVec_multiple h, List.map_flatMap]

/-! ## 9. the discrepancies between the text and the behaviour (all reproduced on the real library,
    see the header), and non-vacuity of every hypothesis -/

theorem not_leafOk_unspanned {encl : Option Span} {p : List Span} {l : Err} (hs : l.span = none)
    (hna : ¬ IsAbsence l) : ¬ LeafOk encl p l := by
  intro h
  rcases h with ⟨x, _, s, h1, _⟩ | ⟨h1, _⟩
  · rw [hs] at h1; cases h1
  · exact hna h1

theorem not_leafOk_pathed {encl : Option Span} {p : List Span} {l : Err} (hs : l.span = none)
    (hl : l.locs ≠ []) : ¬ LeafOk encl p l := by
  intro h
  rcases h with ⟨x, _, s, h1, _⟩ | ⟨_, _, h3⟩
  · rw [hs] at h1; cases h1
  · exact hl h3

theorem not_itemPlaced {A : Span} {e l : Err} (hl : l ∈ intoVec e) (hs : l.span = none) : ¬ ItemPlaced A e := by
  intro h
  obtain ⟨s, h1, _⟩ := h l hl
  rw [hs] at h1; cases h1

private def xfld (n : String) (t : Ty) (attrs : List Attr := []) : FieldD :=
  { ident := some n, ty := t, tyToks := "", vis := "", attrs := attrs }
private def xpth (n : String) (lo hi : Nat) : Path :=
  { global := false, segs := [n], plain := true, toks := n, span := ⟨lo, hi⟩ }
private def xu8 : Ty := .int ⟨"u8", false, 8, false⟩
/-- `#[darling(flatten)]` -/
private def flattenAttr : Attr :=
  { path := xpth "darling" 0 0,
    body := .list (xpth "darling" 0 0) [.item (.path (xpth "flatten" 0 0))] none none "flatten" ⟨0, 0⟩,
    toks := "", span := ⟨0, 0⟩ }

/-- the corpus
    `#[derive(FromMeta)] struct R { #[darling(flatten)] e: E }`,
    `#[derive(FromMeta)] struct H { e: E }`,
    `#[derive(FromMeta)] struct S { a: u8, b: u8 }`,
    `#[derive(FromMeta)] enum E { Unit, St { x: u8, y: u8 } }`,
    read through the model of the derive macro (`Options.derive`) -/
private def xEnv : Env.T :=
  { decls := [
      ("R", .fromMeta,
        { ident := "R", attrs := [], body := .struct .named [xfld "e" (.recv "E") [flattenAttr]] }, {}),
      ("H", .fromMeta,
        { ident := "H", attrs := [], body := .struct .named [xfld "e" (.recv "E")] }, {}),
      ("S", .fromMeta,
        { ident := "S", attrs := [], body := .struct .named [xfld "a" xu8, xfld "b" xu8] }, {}),
      ("E", .fromMeta,
        { ident := "E", attrs := [], body := .enum [
            { ident := "Unit", style := .unit, fields := [], attrs := [], discriminant := none },
            { ident := "St", style := .named, fields := [xfld "x" xu8, xfld "y" xu8],
              attrs := [], discriminant := none }] }, {})],
    oracle := {}, thr := 0 }

/-- `unit = 3` at 0..8 -/
private def mUnitNV : Meta :=
  .nameValue (xpth "unit" 0 4) (.lit ⟨.int "3" "", "3", ⟨7, 8⟩⟩) "unit = 3" ⟨0, 8⟩
/-- `st = 1` at 0..6 -/
private def mStNV : Meta :=
  .nameValue (xpth "st" 0 2) (.lit ⟨.int "1" "", "1", ⟨5, 6⟩⟩) "st = 1" ⟨0, 6⟩
/-- `st(x = 1)` starting at `lo` (9 bytes) -/
private def mStMissing (lo : Nat) : Meta :=
  .list (xpth "st" lo (lo + 2))
    [.item (.nameValue (xpth "x" (lo + 3) (lo + 4)) (.lit ⟨.int "1" "", "1", ⟨lo + 7, lo + 8⟩⟩) "x = 1" ⟨lo + 3, lo + 8⟩)]
    none (some ⟨lo + 3, lo + 8⟩) "x = 1" ⟨lo, lo + 9⟩
/-- `e(st(x = 1))` at 2..15 inside `h(e(st(x = 1)))` at 0..16 -/
private def mE : Meta := .list (xpth "e" 2 3) [.item (mStMissing 4)] none (some ⟨4, 13⟩) "st(x = 1)" ⟨2, 14⟩
private def mH : Meta := .list (xpth "h" 0 1) [.item mE] none (some ⟨2, 14⟩) "e(st(x = 1))" ⟨0, 15⟩

/-! ### D1 (REPAIRED, F29) — a present item of the wrong form.
    `#[my(unit = 3)]` / `#[my(st = 1)]` read by a receiver whose `flatten` field is the enum
    (`R::from_list`; the same leaf comes out of `FromDeriveInput` with `#[darling(flatten)] e: E`):
    the complaint about the form used to be unspanned; it now shows the span of the selecting
    item — the offending item itself. -/
example : (Env.recvHooks xEnv "R").fromList [.item mUnitNV]
    = .err (.leaf (.unexpectedFormat "non-path") [] (some ⟨0, 8⟩)) := rfl
example : mUnitNV.span = ⟨0, 8⟩ := rfl
example : (Env.recvHooks xEnv "R").fromList [.item mStNV]
    = .err (.leaf (.unexpectedFormat "non-list") [] (some ⟨0, 6⟩)) := rfl
example : mStNV.span = ⟨0, 6⟩ := rfl
/-- the text's list-level verdict now holds of it (it used to fail) … -/
example : ∃ e, (Env.recvHooks xEnv "R").fromList [.item mUnitNV] = .err e
    ∧ ListPlaced none (presentOf [.item mUnitNV]) e :=
  ⟨_, rfl, fun l hl => by
    have hl' : l = .leaf (.unexpectedFormat "non-path") [] (some ⟨0, 8⟩) := List.mem_singleton.mp hl
    subst hl'
    exact Or.inl ⟨⟨0, 8⟩, List.mem_singleton.mpr rfl, ⟨0, 8⟩, rfl, rfl⟩⟩
/-- … and so does the enum-level verdict (`enum_item_placed_partial` no longer has a condition on
    the form of the item; see the non-vacuity section for the theorem applied to such an item) -/
example : ∃ e, (Env.recvHooks xEnv "E").fromList [.item mUnitNV] = .err e ∧ ItemPlaced mUnitNV.span e :=
  ⟨_, rfl, fun l hl => by
    have hl' : l = .leaf (.unexpectedFormat "non-path") [] (some ⟨0, 8⟩) := List.mem_singleton.mp hl
    subst hl'
    exact ⟨⟨0, 8⟩, rfl, rfl⟩⟩

/-! ### D2 (stands) — a literal and a surplus item at the enum: present, unspanned (there is no
    single item at fault; the repair leaves these errors alone) -/
example : (Env.recvHooks xEnv "E").fromList [.lit ⟨.str "lit", "\"lit\"", ⟨0, 5⟩⟩]
    = .err (.leaf (.unexpectedFormat "literal") [] none) := rfl
example : (Env.recvHooks xEnv "R").fromList [.item (mStMissing 0), .item (.path (xpth "unit" 11 15))]
    = .err (.leaf (.tooManyItems 1) [] none) := rfl

/-! ### D3 (REPAIRED, F29) — absent from a nested item.
    `#[my(st(x = 1))]`: `y` is missing *inside* `st(…)`, an item that is present and has a span;
    the leaf carries the path `st` and used to carry no span; it now shows exactly the span of
    `st(…)`, "that enclosing item's span". -/
example : (Env.recvHooks xEnv "R").fromList [.item (mStMissing 0)]
    = .err (.leaf (.missingField "y") ["st"] (some ⟨0, 9⟩)) := rfl
example : (mStMissing 0).span = ⟨0, 9⟩ := rfl
/-- the leaf is what `enum_struct_variant_placed_partial` describes: an absence, located under the
    variant's name, showing exactly the span of `st(…)` -/
example : VariantLeafOk "st" ⟨0, 9⟩ (presentOf [.item (.nameValue (xpth "x" 3 4) (.lit ⟨.int "1" "", "1", ⟨7, 8⟩⟩) "x = 1" ⟨3, 8⟩)])
    (.leaf (.missingField "y") ["st"] (some ⟨0, 9⟩)) := Or.inr ⟨rfl, rfl, rfl⟩
/-- the list-level and the enum-level verdicts now hold of it (`enum_item_placed_partial` no longer
    has a condition on the leaves) -/
example : ∃ e, (Env.recvHooks xEnv "R").fromList [.item (mStMissing 0)] = .err e
    ∧ ListPlaced none (presentOf [.item (mStMissing 0)]) e :=
  ⟨_, rfl, fun l hl => by
    have hl' : l = .leaf (.missingField "y") ["st"] (some ⟨0, 9⟩) := List.mem_singleton.mp hl
    subst hl'
    exact Or.inl ⟨⟨0, 9⟩, List.mem_singleton.mpr rfl, ⟨0, 9⟩, rfl, rfl⟩⟩
example : ∃ e, (Env.recvHooks xEnv "E").fromList [.item (mStMissing 0)] = .err e
    ∧ ItemPlaced (mStMissing 0).span e :=
  ⟨_, rfl, fun l hl => by
    have hl' : l = .leaf (.missingField "y") ["st"] (some ⟨0, 9⟩) := List.mem_singleton.mp hl
    subst hl'
    exact ⟨⟨0, 9⟩, rfl, rfl⟩⟩

/-! ### D4 (REPAIRED, F29) — absent from a nested item, the enum being an ordinary field.
    `h(e(st(x = 1)))`: `y` is missing from `st(…)` (4..13); the leaf used to show the span of `e(…)`
    (2..14), the item that encloses `st(…)`; it now shows 4..13, "that enclosing item's span": the
    span attached by the enum is never replaced by the coarser ones the callers offer on the way
    out (`e(…)` by the default `from_meta`, then the field's item). -/
example : (Env.recvHooks xEnv "H").fromMeta mH
    = .err (.leaf (.missingField "y") ["e", "st"] (some ⟨4, 13⟩)) := rfl
example : (mStMissing 4).span = ⟨4, 13⟩ := rfl
example : mE.span = ⟨2, 14⟩ := rfl

/-! ### an observation outside the three operations the text names: `into_iter()` on a bundle that
    has not been flattened hands out the members as they are — the bundle's span (and location)
    is not passed down -/
example : (Err.multi [.leaf (.missingField "a") [] none, .leaf (.missingField "b") [] none] ["inner"]
    (some ⟨10, 17⟩)).intoIter.map Err.span = [none, none] := rfl

/-! ### non-vacuity -/

/-- `item-level`: the hypotheses of `recv_itemPlaced` hold of `h(e(st(x = 1)))`, and its conclusion
    is not trivial (there is a leaf) -/
example : mH.spanWF = true := by decide
example (e : Err) (he : (Env.recvHooks xEnv "H").fromMeta mH = .err e) : ItemPlaced mH.span e :=
  recv_itemPlaced xEnv "H" mH (by decide) (oracle_arrsWithin (by decide)) e he
example : NoArrays xEnv.oracle := fun _ => rfl

/-- a hand-made struct parser `{ a, b }` whose converter rejects everything but `name = literal`
    with a span-less complaint -/
private def convEx : Meta → Outcome Nat
  | .nameValue _ (.lit _) _ _ => .ok 0
  | _ => .err (Err.unsupportedFormat "not a literal")
private def fEx (n : String) : SField Nat :=
  { ident := n, name := n, conv := convEx, fromNone := none,
    fromList := fun _ => .panic "", dflt := none, skip := false, multiple := false, flatten := false }
private def sEx : SStruct Nat :=
  { fields := [fEx "a", fEx "b"], allowUnknown := false, containerDefault := none, build := fun _ => 0,
    mkList := fun _ => 0, post := .ok, score := fun _ _ => 0, thr := 0 }

private theorem convEx_tight (m : Meta) : (convEx m).ErrsIn m.span := by
  unfold convEx
  split
  · exact errsIn_ok _ _
  · exact errsIn_err ((unsp_unsupportedFormat _).allWithin _)

private theorem sEx_tight : ConvTight sEx := by
  intro f hf m _
  have : f.conv = convEx := by
    have hf' : f ∈ [fEx "a", fEx "b"] := hf
    simp only [List.mem_cons, List.not_mem_nil, or_false] at hf'
    rcases hf' with rfl | rfl <;> rfl
  rw [this]; exact convEx_tight m
private theorem sEx_flat : FlattenPlaced sEx := flattenPlaced_of_none sEx rfl
private theorem sEx_post : PostOk sEx := fun _ _ h => by cases h

/-- `a(1), zzz` (0..4, 6..9): a rejected value, an unknown name, and `b` missing -/
private def itemsEx : List NestedMeta :=
  [.item (.list (xpth "a" 0 1) [] none none "1" ⟨0, 4⟩), .item (.path (xpth "zzz" 6 9))]

example : ∃ e, Derive.fromList sEx itemsEx = .err e ∧ (intoVec e).map Err.span = [some ⟨0, 4⟩, some ⟨6, 9⟩, none] :=
  ⟨_, rfl, rfl⟩
example (e : Err) (he : Derive.fromList sEx itemsEx = .err e) : ListPlaced none (presentOf itemsEx) e :=
  struct_fromList_placed_partial sEx sEx_tight sEx_flat sEx_post itemsEx
    (by intro n hn
        have hn' : n ∈ [NestedMeta.item (.list (xpth "a" 0 1) [] none none "1" ⟨0, 4⟩),
          .item (.path (xpth "zzz" 6 9))] := hn
        simp only [List.mem_cons, List.not_mem_nil, or_false] at hn'
        rcases hn' with rfl | rfl <;> rfl) e he
/-- … nested: absences then show exactly the enclosing item's span -/
example (e : Err)
    (he : (structHooks (.named sEx) none none).fromMeta (.list (xpth "s" 0 1) [] none none "" ⟨0, 3⟩) = .err e) :
    ListPlaced (some ⟨0, 3⟩) (presentOf []) e :=
  struct_fromMeta_placed_partial sEx sEx_tight sEx_flat sEx_post none none _ [] none "" ⟨0, 3⟩
    (fun _ h => by cases h) e he
example : ∃ e, (structHooks (.named sEx) none none).fromMeta (.list (xpth "s" 0 1) [] none none "" ⟨0, 3⟩) = .err e
    ∧ (intoVec e).map Err.span = [some ⟨0, 3⟩, some ⟨0, 3⟩] := ⟨_, rfl, rfl⟩

/-- a receiver `{ c, #[darling(flatten)] rest: sEx }`: the side condition on `flatten` holds -/
private def sFlat : SStruct Nat :=
  { sEx with fields := [fEx "c", { fEx "rest" with flatten := true, fromList := Derive.fromList sEx }] }
example : FlattenPlaced sFlat := by
  apply flattenPlaced_of_struct
  intro f hf hfl
  have hf' : f ∈ [fEx "c", { fEx "rest" with flatten := true, fromList := Derive.fromList sEx }] := hf
  simp only [List.mem_cons, List.not_mem_nil, or_false] at hf'
  rcases hf' with rfl | rfl
  · cases hfl
  · exact ⟨sEx, rfl, sEx_tight, sEx_flat, sEx_post⟩
/-- `c = 1, zzz`: `zzz` goes to the flatten member, which rejects it at `zzz` and misses `a`, `b` -/
example : ∃ e, Derive.fromList sFlat
      [.item (.nameValue (xpth "c" 0 1) (.lit ⟨.int "1" "", "1", ⟨4, 5⟩⟩) "c = 1" ⟨0, 5⟩),
       .item (.path (xpth "zzz" 7 10))] = .err e
    ∧ (intoVec e).map Err.span = [some ⟨7, 10⟩, none, none] := ⟨_, rfl, rfl⟩

/-- a hand-made enum `{ unit, st { a, b } }` over it -/
private def eEx : SEnum Nat :=
  { variants := [{ name := "unit", skip := false, kind := .unit 1 },
                 { name := "st", skip := false, kind := .struct sEx }],
    score := fun _ _ => 0, thr := 0, fromWord := none, fromNone := none }

private theorem eEx_tight : ∀ v ∈ eEx.variants, VariantTight v := by
  intro v hv
  have hv' : v ∈ [({ name := "unit", skip := false, kind := .unit 1 } : SVariant Nat),
                 { name := "st", skip := false, kind := .struct sEx }] := hv
  simp only [List.mem_cons, List.not_mem_nil, or_false] at hv'
  rcases hv' with rfl | rfl
  · exact True.intro
  · exact ⟨sEx_tight, sEx_flat, sEx_post⟩

/-- `st(a(1), b = 2)` at 0..16: the form fits, nothing is missing, one value is rejected -/
private def mStBad : Meta :=
  .list (xpth "st" 0 2)
    [.item (.list (xpth "a" 3 4) [] none none "1" ⟨3, 7⟩),
     .item (.nameValue (xpth "b" 9 10) (.lit ⟨.int "2" "", "2", ⟨13, 14⟩⟩) "b = 2" ⟨9, 14⟩)]
    none (some ⟨3, 14⟩) "a(1), b = 2" ⟨0, 15⟩

example : ∃ e, enumFromList eEx [.item mStBad] = .err e ∧ (intoVec e).map Err.span = [some ⟨3, 7⟩] := ⟨_, rfl, rfl⟩
example (e : Err) (he : enumFromList eEx [.item mStBad] = .err e) : ItemPlaced mStBad.span e :=
  enum_item_placed_partial eEx eEx_tight mStBad (by decide) e he
/-- the wrong form and a missing field (the former discrepancies D1, D3) are inside the theorem now -/
example (e : Err) (he : enumFromList eEx [.item mUnitNV] = .err e) : ItemPlaced mUnitNV.span e :=
  enum_item_placed_partial eEx eEx_tight mUnitNV (by decide) e he
example : ∃ e, enumFromList eEx [.item mUnitNV] = .err e ∧ (intoVec e).map Err.span = [some ⟨0, 8⟩] := ⟨_, rfl, rfl⟩
/-- `st(b = 2)` at 0..9: `a` is missing; the leaf shows exactly 0..9 -/
private def mStNoA : Meta :=
  .list (xpth "st" 0 2)
    [.item (.nameValue (xpth "b" 3 4) (.lit ⟨.int "2" "", "2", ⟨7, 8⟩⟩) "b = 2" ⟨3, 8⟩)]
    none (some ⟨3, 8⟩) "b = 2" ⟨0, 9⟩
example : ∃ e, enumFromList eEx [.item mStNoA] = .err e
    ∧ (intoVec e).map (fun l => (l.locs, l.span)) = [(["st"], some ⟨0, 9⟩)] := ⟨_, rfl, rfl⟩
example (e : Err) (he : enumFromList eEx [.item mStNoA] = .err e) :
    ∀ l ∈ intoVec e, VariantLeafOk "st" ⟨0, 9⟩ (presentOf [.item (.nameValue (xpth "b" 3 4) (.lit ⟨.int "2" "", "2", ⟨7, 8⟩⟩) "b = 2" ⟨3, 8⟩)]) l :=
  enum_struct_variant_placed_partial eEx _ _ _ _ _ { name := "st", skip := false, kind := .struct sEx } sEx
    rfl rfl sEx_tight sEx_flat sEx_post (by decide) e he
/-- the enum at the root of an attribute set (behind `flatten`): no item, one item -/
example (e : Err) (he : enumFromList eEx [] = .err e) : ListPlaced none (presentOf []) e :=
  enum_fromList_placed_partial eEx eEx_tight [] (by decide) (fun _ h => by cases h) (fun _ h => by cases h) e he
example (e : Err) (he : enumFromList eEx [.item mStNoA] = .err e) : ListPlaced none (presentOf [.item mStNoA]) e :=
  enum_fromList_placed_partial eEx eEx_tight _ (by decide) (fun _ h => by cases List.mem_singleton.mp h)
    (fun n h => by rw [List.mem_singleton.mp h]; decide) e he

/-- an element-level receiver over `sEx` reading `#[my(...)]` -/
private def oEx : SOuter Nat := { fields := sEx, attrNames := ["my"], forward := none, attrsField := none }
/-- `#[my(a(1), zzz)]` -/
private def attrEx : Attr :=
  { path := xpth "my" 2 4,
    body := .list (xpth "my" 2 4)
      [.item (.list (xpth "a" 5 6) [] none none "1" ⟨5, 9⟩), .item (.path (xpth "zzz" 11 14))]
      none (some ⟨5, 14⟩) "a(1), zzz" ⟨2, 15⟩,
    toks := "", span := ⟨0, 16⟩ }
private def shapeErr : Outcome Unit := .err (Err.new (.unsupportedShape "union" none))

example : AttrsFnOk oEx := fun _ h => by cases h
example : ValidateVerdict shapeErr := by
  intro e he l hl
  cases he
  simp only [Err.new, intoVec, intoVecP_leaf, List.mem_singleton] at hl
  subst hl
  exact ⟨rfl, rfl⟩
example : ∀ a ∈ [attrEx], a.body.spanWF = true := by
  intro a ha; simp only [List.mem_singleton] at ha; subst ha; decide
/-- a rejected value and an unknown name (spanned inside their items), `b` missing and the shape
    verdict (unspanned): four leaves -/
example : ∃ p av e, extract oEx [attrEx] = .ok (p, av)
    ∧ finishOuter oEx p av shapeErr [] [] (fun _ => 0) = .err e
    ∧ (intoVec e).map Err.span = [some ⟨5, 9⟩, some ⟨11, 14⟩, none, none] :=
  ⟨_, _, _, rfl, rfl, rfl⟩

end C03
