import Darling.Derive.Struct
import Darling.Props.C03
/-
  C03, receiver level — where the derived struct parser puts its spans.

  For every struct receiver and every item list, every error the item loop records
  (`FieldsGen::core_loop`: bare literal, unknown name, repeated field, failed conversion) carries
  an explicit span lying inside the item at fault, provided the field converters honour the same
  contract (an error they return is unspanned or spanned inside the item they were given — true of
  every built-in conversion and of nested derived receivers by this very theorem).
  Absences (`Missing field`) are recorded unspanned by `CheckMissing`; the default `from_meta`
  then spans the whole result with the enclosing item (`fromMeta_spans_result`), which flattening
  hands down to every unspanned leaf (`C03.flatten_spans`).
-/
open Derive

namespace C03
variable {ν : Type}

/-- `e` carries a span inside `sp` -/
def SpannedWithin (sp : Span) (e : Err) : Prop := ∃ s, e.span = some s ∧ s.within sp = true

/-- the converter contract: a returned error is unspanned, or spanned inside the given item -/
def ConvSpans (s : SStruct ν) : Prop :=
  ∀ f ∈ s.fields, ∀ (m : Meta) (e : Err), f.conv m = .err e → ∀ sp, e.span = some sp → sp.within m.span = true

theorem within_refl (s : Span) : s.within s = true := by simp [Span.within]

theorem withSpan_within (e : Err) (sp : Span) (h : ∀ s, e.span = some s → s.within sp = true) :
    SpannedWithin sp (e.withSpan sp) := by
  cases hs : e.span with
  | none => exact ⟨sp, withSpan_sets e sp hs, within_refl sp⟩
  | some s => exact ⟨s, by rw [withSpan_keeps e s sp hs]; exact hs, h s hs⟩

theorem at_within (sp : Span) (e : Err) (l : String) (h : SpannedWithin sp e) : SpannedWithin sp (e.at l) := by
  obtain ⟨s, h1, h2⟩ := h
  exact ⟨s, by rw [at_span]; exact h1, h2⟩

/-- every recorded error is spanned inside one of the items seen so far -/
def ErrsPlaced (items : List NestedMeta) (st : PState ν) : Prop :=
  ∀ e ∈ st.errs, ∃ it ∈ items, SpannedWithin it.span e

theorem placed_mono (xs : List NestedMeta) (x : NestedMeta) (st : PState ν) (h : ErrsPlaced xs st) :
    ErrsPlaced (xs ++ [x]) st := by
  intro e he
  obtain ⟨it, hit, hw⟩ := h e he
  exact ⟨it, List.mem_append_left _ hit, hw⟩

theorem placed_push (xs : List NestedMeta) (x : NestedMeta) (st : PState ν) (e : Err) (h : ErrsPlaced xs st)
    (he : SpannedWithin x.span e) : ErrsPlaced (xs ++ [x]) (st.push e) := by
  intro e' he'
  simp only [PState.push, List.mem_append, List.mem_singleton] at he'
  rcases he' with h1 | rfl
  · obtain ⟨it, hit, hw⟩ := h e' h1
    exact ⟨it, List.mem_append_left _ hit, hw⟩
  · exact ⟨x, List.mem_append_right _ (List.mem_singleton.mpr rfl), he⟩

theorem arm_mem' (s : SStruct ν) (n : String) (f : SField ν) (h : s.arm n = some f) : f ∈ s.fields :=
  List.mem_of_find?_eq_some h

/-- one iteration of the item loop keeps every error placed -/
theorem stepItem_placed (s : SStruct ν) (hc : ConvSpans s) (xs : List NestedMeta) (st st' : PState ν) (it : NestedMeta)
    (hp : ErrsPlaced xs st) (h : stepItem s st it = .ok st') : ErrsPlaced (xs ++ [it]) st' := by
  cases it with
  | lit l =>
      simp only [stepItem] at h
      cases h
      exact placed_push xs (.lit l) st _ hp
        (withSpan_within _ l.span (by intro s hs; simp [Err.unsupportedFormat, Err.new, Err.span] at hs))
  | item inner =>
      simp only [stepItem] at h
      cases ha : s.arm inner.path'.toStr with
      | none =>
          rw [ha] at h
          simp only [] at h
          by_cases hf : s.hasFlatten = true
          · simp only [hf, if_true] at h; cases h
            exact placed_mono xs _ _ (fun e he => hp e he)
          · simp only [hf] at h
            by_cases hu : s.allowUnknown = true
            · simp only [hu, if_true] at h; cases h; exact placed_mono xs _ st hp
            · simp only [hu] at h; cases h
              exact placed_push xs (.item inner) st _ hp
                (withSpan_within _ inner.span (by intro sp hs; simp [SStruct.unknownErr, Err.new, Err.span] at hs))
      | some f =>
          have hm := arm_mem' s _ f ha
          rw [ha] at h
          simp only [] at h
          by_cases hmul : f.multiple = true
          · simp only [hmul, if_true] at h
            cases hcv : f.conv inner with
            | ok v => rw [hcv] at h; cases h; exact placed_mono xs _ _ (fun e he => hp e he)
            | err e =>
                rw [hcv] at h; cases h
                exact placed_push xs (.item inner) st _ hp
                  (at_within _ _ _ (withSpan_within e inner.span (hc f hm inner e hcv)))
            | panic m => rw [hcv] at h; cases h
          · simp only [hmul] at h
            by_cases hseen : (st.slot f.ident).seen = true
            · simp only [hseen] at h; cases h
              exact placed_push xs (.item inner) st _ hp
                (withSpan_within _ inner.span (by intro sp hs; simp [Err.new, Err.span] at hs))
            · simp only [hseen] at h
              cases hcv : f.conv inner with
              | ok v => rw [hcv] at h; cases h; exact placed_mono xs _ _ (fun e he => hp e he)
              | err e =>
                  rw [hcv] at h; cases h
                  exact placed_push xs (.item inner) (st.set f.ident { st.slot f.ident with seen := true, val := none })
                    ((e.withSpan inner.span).at f.name) (fun e' he' => hp e' he')
                    (at_within inner.span (e.withSpan inner.span) f.name (withSpan_within e inner.span (hc f hm inner e hcv)))
              | panic m => rw [hcv] at h; cases h

/-- **Every mistake the item loop reports is spanned inside the item at fault.** -/
theorem coreLoop_placed (s : SStruct ν) (hc : ConvSpans s) (items : List NestedMeta) :
    ∀ (pre : List NestedMeta) (st st' : PState ν), ErrsPlaced pre st → coreLoop s st items = .ok st' →
      ErrsPlaced (pre ++ items) st' := by
  induction items with
  | nil => intro pre st st' hp h; simp only [coreLoop] at h; cases h; simpa using hp
  | cons it rest ih =>
      intro pre st st' hp h
      simp only [coreLoop] at h
      cases hs : stepItem s st it with
      | error m => rw [hs] at h; cases h
      | ok st1 =>
          rw [hs] at h
          have h1 := stepItem_placed s hc pre st st1 it hp hs
          have := ih (pre ++ [it]) st1 st' h1 h
          simpa using this

theorem coreLoop_placed_from_start (s : SStruct ν) (hc : ConvSpans s) (items : List NestedMeta) (st' : PState ν)
    (h : coreLoop s {} items = .ok st') : ErrsPlaced items st' := by
  have := coreLoop_placed s hc items [] {} st' (by intro e he; cases he) h
  simpa using this

/-- the default `from_meta` spans whatever error comes back with the enclosing item (the part that
    gives absences their enclosing item's span); an error that already has a span keeps it -/
theorem mapErr_withSpan_spanned (o : Outcome ν) (sp : Span) (e : Err) (h : o.mapErr (·.withSpan sp) = .err e) :
    ∃ s, e.span = some s := by
  cases o with
  | ok v => cases h
  | panic m => cases h
  | err e0 =>
      simp only [Outcome.mapErr] at h
      cases h
      cases hs : e0.span with
      | none => exact ⟨sp, withSpan_sets e0 sp hs⟩
      | some s => exact ⟨s, by rw [withSpan_keeps e0 s sp hs]; exact hs⟩

/-! ### non-vacuity: a converter that errs without a span satisfies the contract -/
private def fEx : SField Nat :=
  { ident := "a", name := "a", conv := fun _ => .err (Err.new (.custom "x")), fromNone := none,
    fromList := fun _ => .panic "", dflt := none, skip := false, multiple := false, flatten := false }
private def sEx : SStruct Nat :=
  { fields := [fEx], allowUnknown := false, containerDefault := none, build := fun _ => 0, mkList := fun _ => 0,
    post := .ok, score := fun _ _ => 0, thr := 0 }

example : ConvSpans sEx := by
  intro f hf m e he sp hsp
  simp [sEx] at hf; subst hf
  simp [fEx] at he; subst he
  simp [Err.new, Err.span] at hsp

end C03
