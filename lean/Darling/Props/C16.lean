import Darling.Derive.Outer
import Darling.Derive.Magic
/-
  C16 — Magic fields and body conversion mirror the input element faithfully.

  Body conversion (`ast::Fields::try_from`, `ast::Data::try_from`), for every entry converter
  (any `FromField` / `FromVariant` implementation that does not panic) and every body:

    * `fields_ok_iff`, `fields_values`     succeeds exactly when every field converts; then there is
                                           exactly one converted entry per input field, in source order;
    * `fields_errors`                      otherwise *all* failures are reported, in source order,
                                           named fields located by their name;
    * `data_*`                             the same for variants; the kind (struct / enum) and the
                                           style are those of the input; a union is always an error;
    * `data_fails_iff`                     conversion fails exactly when some entry fails or the
                                           body is a union.
  Magic members: `earlyParts_*` — each declared magic member is exactly the corresponding
  component of the input element, and no other member is produced; `finishOuter_mirrors` — a
  successful receiver is built from exactly these parts, unchanged.
  Printing: `printFields_*` — the printed field list is the original fields in order, comma
  separated, in the original delimiters (with a trailing comma for a non-empty named body).
-/
open Derive Options

namespace C16
variable {ν : Type}

/-! ### `Fields::try_from` -/

/-- the values of the fields that convert, and the located errors of those that do not -/
def okVals (conv : FieldD → Outcome ν) : List FieldD → List ν
  | [] => []
  | f :: rest => match conv f with
      | .ok v => v :: okVals conv rest
      | _ => okVals conv rest

def failures (conv : FieldD → Outcome ν) : List FieldD → List Err
  | [] => []
  | f :: rest => match conv f with
      | .err e => located f e :: failures conv rest
      | _ => failures conv rest

def NoPanic (conv : α → Outcome ν) (xs : List α) : Prop := ∀ x ∈ xs, (conv x).isPanic = false

theorem fieldsTryFrom_spec (conv : FieldD → Outcome ν) (fs : List FieldD) (vs : List ν) (errs : List Err)
    (hnp : NoPanic conv fs) :
    fieldsTryFrom conv fs vs errs = .ok (vs ++ okVals conv fs, errs ++ failures conv fs) := by
  induction fs generalizing vs errs with
  | nil => simp [fieldsTryFrom, okVals, failures]
  | cons f rest ih =>
      have hr : NoPanic conv rest := fun x hx => hnp x (List.mem_cons_of_mem _ hx)
      have hf := hnp f (List.mem_cons_self)
      unfold fieldsTryFrom okVals failures
      cases hc : conv f with
      | ok v => simp only []; rw [ih _ _ hr]; simp
      | err e => simp only []; rw [ih _ _ hr]; simp
      | panic m => rw [hc] at hf; cases hf

/-- no failure ⇔ every field converts -/
theorem failures_nil_iff (conv : FieldD → Outcome ν) (fs : List FieldD) (hnp : NoPanic conv fs) :
    failures conv fs = [] ↔ ∀ f ∈ fs, (conv f).isOk = true := by
  induction fs with
  | nil => simp [failures]
  | cons f rest ih =>
      have hr : NoPanic conv rest := fun x hx => hnp x (List.mem_cons_of_mem _ hx)
      have hf := hnp f (List.mem_cons_self)
      unfold failures
      cases hc : conv f with
      | ok v => simp [ih hr, Outcome.isOk, hc]
      | err e => simp [Outcome.isOk, hc]
      | panic m => rw [hc] at hf; cases hf

/-- when every field converts, the entries are exactly the converted fields, one per field, in order -/
theorem okVals_all (conv : FieldD → Outcome ν) (fs : List FieldD) (h : ∀ f ∈ fs, (conv f).isOk = true) :
    (okVals conv fs).map Outcome.ok = fs.map conv := by
  induction fs with
  | nil => rfl
  | cons f rest ih =>
      have hf := h f (List.mem_cons_self)
      have hr := ih (fun x hx => h x (List.mem_cons_of_mem _ hx))
      unfold okVals
      cases hc : conv f with
      | ok v => simp [hr, hc]
      | err e => rw [hc] at hf; cases hf
      | panic m => rw [hc] at hf; cases hf

theorem okVals_length (conv : FieldD → Outcome ν) (fs : List FieldD) (h : ∀ f ∈ fs, (conv f).isOk = true) :
    (okVals conv fs).length = fs.length := by
  have := congrArg List.length (okVals_all conv fs h)
  simpa using this

/-- the failures are one per failing field, in source order -/
theorem failures_length (conv : FieldD → Outcome ν) (fs : List FieldD) :
    (failures conv fs).length = (fs.filter (fun f => match conv f with | .err _ => true | _ => false)).length := by
  induction fs with
  | nil => rfl
  | cons f rest ih =>
      unfold failures
      cases hc : conv f <;> simp [List.filter_cons, hc, ih]

/-- a named field's failure carries the field's name as its innermost location -/
theorem located_named (f : FieldD) (id : String) (h : f.ident = some id) (e : Err) :
    (located f e).locs = id :: e.locs := by
  unfold located; rw [h]; cases e <;> rfl

theorem located_unnamed (f : FieldD) (h : f.ident = none) (e : Err) : located f e = e := by
  unfold located; rw [h]

/-! ### `Data::try_from` -/

def vOkVals (conv : VariantD → Outcome ν) : List VariantD → List ν
  | [] => []
  | v :: rest => match conv v with
      | .ok x => x :: vOkVals conv rest
      | _ => vOkVals conv rest

def vFailures (conv : VariantD → Outcome ν) : List VariantD → List Err
  | [] => []
  | v :: rest => match conv v with
      | .err e => e :: vFailures conv rest
      | _ => vFailures conv rest

theorem variantsTryFrom_spec (conv : VariantD → Outcome ν) (vs : List VariantD) (acc : List ν) (errs : List Err)
    (hnp : NoPanic conv vs) :
    variantsTryFrom conv vs acc errs = .ok (acc ++ vOkVals conv vs, errs ++ vFailures conv vs) := by
  induction vs generalizing acc errs with
  | nil => simp [variantsTryFrom, vOkVals, vFailures]
  | cons v rest ih =>
      have hr : NoPanic conv rest := fun x hx => hnp x (List.mem_cons_of_mem _ hx)
      have hf := hnp v (List.mem_cons_self)
      unfold variantsTryFrom vOkVals vFailures
      cases hc : conv v with
      | ok x => simp only []; rw [ih _ _ hr]; simp
      | err e => simp only []; rw [ih _ _ hr]; simp
      | panic m => rw [hc] at hf; cases hf

theorem vFailures_nil_iff (conv : VariantD → Outcome ν) (vs : List VariantD) (hnp : NoPanic conv vs) :
    vFailures conv vs = [] ↔ ∀ v ∈ vs, (conv v).isOk = true := by
  induction vs with
  | nil => simp [vFailures]
  | cons v rest ih =>
      have hr : NoPanic conv rest := fun x hx => hnp x (List.mem_cons_of_mem _ hx)
      have hf := hnp v (List.mem_cons_self)
      unfold vFailures
      cases hc : conv v with
      | ok x => simp [ih hr, Outcome.isOk, hc]
      | err e => simp [Outcome.isOk, hc]
      | panic m => rw [hc] at hf; cases hf

theorem vOkVals_all (conv : VariantD → Outcome ν) (vs : List VariantD) (h : ∀ v ∈ vs, (conv v).isOk = true) :
    (vOkVals conv vs).map Outcome.ok = vs.map conv := by
  induction vs with
  | nil => rfl
  | cons v rest ih =>
      have hf := h v (List.mem_cons_self)
      have hr := ih (fun x hx => h x (List.mem_cons_of_mem _ hx))
      unfold vOkVals
      cases hc : conv v with
      | ok x => simp [hr, hc]
      | err e => rw [hc] at hf; cases hf
      | panic m => rw [hc] at hf; cases hf

section data
variable (fconv : FieldD → Outcome ν) (vconv : VariantD → Outcome ν)
  (mkStruct : Style → List ν → ν) (mkEnum : List ν → ν)

/-- a union is always an error (never a panic, never a value) -/
theorem data_union : dataTryFrom fconv vconv mkStruct mkEnum .union = .err (Err.custom "Unions are not supported") := rfl

/-- a struct body whose fields all convert becomes `Data::Struct` of the *same style* with exactly
    the converted fields in order -/
theorem data_struct_ok (style : Style) (fs : List FieldD) (hnp : NoPanic fconv fs)
    (h : ∀ f ∈ fs, (fconv f).isOk = true) :
    dataTryFrom fconv vconv mkStruct mkEnum (.struct style fs) = .ok (mkStruct style (okVals fconv fs)) := by
  simp only [dataTryFrom]
  rw [fieldsTryFrom_spec fconv fs [] [] hnp, (failures_nil_iff fconv fs hnp).mpr h]
  simp

/-- otherwise the error is the bundle of *all* field failures, located -/
theorem data_struct_err (style : Style) (fs : List FieldD) (hnp : NoPanic fconv fs)
    (h : ¬ ∀ f ∈ fs, (fconv f).isOk = true) :
    dataTryFrom fconv vconv mkStruct mkEnum (.struct style fs) = Err.bundleErr (failures fconv fs) ∧
      failures fconv fs ≠ [] := by
  have hne : failures fconv fs ≠ [] := fun hn => h ((failures_nil_iff fconv fs hnp).mp hn)
  refine ⟨?_, hne⟩
  simp only [dataTryFrom]
  rw [fieldsTryFrom_spec fconv fs [] [] hnp]
  cases hfl : failures fconv fs with
  | nil => exact absurd hfl hne
  | cons e es => simp

theorem data_enum_ok (vs : List VariantD) (hnp : NoPanic vconv vs) (h : ∀ v ∈ vs, (vconv v).isOk = true) :
    dataTryFrom fconv vconv mkStruct mkEnum (.enum vs) = .ok (mkEnum (vOkVals vconv vs)) := by
  simp only [dataTryFrom]
  rw [variantsTryFrom_spec vconv vs [] [] hnp, (vFailures_nil_iff vconv vs hnp).mpr h]
  simp

theorem data_enum_err (vs : List VariantD) (hnp : NoPanic vconv vs) (h : ¬ ∀ v ∈ vs, (vconv v).isOk = true) :
    dataTryFrom fconv vconv mkStruct mkEnum (.enum vs) = Err.bundleErr (vFailures vconv vs) ∧
      vFailures vconv vs ≠ [] := by
  have hne : vFailures vconv vs ≠ [] := fun hn => h ((vFailures_nil_iff vconv vs hnp).mp hn)
  refine ⟨?_, hne⟩
  simp only [dataTryFrom]
  rw [variantsTryFrom_spec vconv vs [] [] hnp]
  cases hfl : vFailures vconv vs with
  | nil => exact absurd hfl hne
  | cons e es => simp

/-- the entries of a body and whether all of them convert -/
def allConvert : BodyD → Prop
  | .struct _ fs => ∀ f ∈ fs, (fconv f).isOk = true
  | .enum vs => ∀ v ∈ vs, (vconv v).isOk = true
  | .union => False

def BodyNoPanic : BodyD → Prop
  | .struct _ fs => NoPanic fconv fs
  | .enum vs => NoPanic vconv vs
  | .union => True

theorem bundleErr_not_ok (errs : List Err) (h : errs ≠ []) : (Err.bundleErr errs : Outcome ν).isOk = false := by
  cases errs with
  | nil => exact absurd rfl h
  | cons e es => cases es <;> rfl

theorem bundleErr_not_panic (errs : List Err) (h : errs ≠ []) : (Err.bundleErr errs : Outcome ν).isPanic = false := by
  cases errs with
  | nil => exact absurd rfl h
  | cons e es => cases es <;> rfl

/-- **Body conversion fails exactly when some field or variant fails or the element is a union**,
    and it never panics when the entry converters do not -/
theorem data_fails_iff (b : BodyD) (hnp : BodyNoPanic fconv vconv b) :
    ((dataTryFrom fconv vconv mkStruct mkEnum b).isOk = true ↔ allConvert fconv vconv b) ∧
    (dataTryFrom fconv vconv mkStruct mkEnum b).isPanic = false := by
  cases b with
  | union => simp [data_union, allConvert, Outcome.isOk, Outcome.isPanic]
  | struct style fs =>
      by_cases h : ∀ f ∈ fs, (fconv f).isOk = true
      · rw [data_struct_ok fconv vconv mkStruct mkEnum style fs hnp h]
        simp only [allConvert]
        exact ⟨⟨fun _ => h, fun _ => rfl⟩, rfl⟩
      · obtain ⟨he, hne⟩ := data_struct_err fconv vconv mkStruct mkEnum style fs hnp h
        rw [he, bundleErr_not_ok _ hne, bundleErr_not_panic _ hne]
        simp [allConvert, h]
  | «enum» vs =>
      by_cases h : ∀ v ∈ vs, (vconv v).isOk = true
      · rw [data_enum_ok fconv vconv mkStruct mkEnum vs hnp h]
        simp only [allConvert]
        exact ⟨⟨fun _ => h, fun _ => rfl⟩, rfl⟩
      · obtain ⟨he, hne⟩ := data_enum_err fconv vconv mkStruct mkEnum vs hnp h
        rw [he, bundleErr_not_ok _ hne, bundleErr_not_panic _ hne]
        simp [allConvert, h]

end data

/-! ### magic members -/

/-- the magic members a receiver of each element kind can declare, and the component each mirrors -/
def component : Elem → String → Option Val
  | .deriveInput d, "ident" => some (.toks d.ident)
  | .deriveInput d, "vis" => some (.toks d.vis)
  | .field f, "ident" => some (optToks f.ident)
  | .field f, "ty" => some (.toks f.tyToks)
  | .field f, "vis" => some (.toks f.vis)
  | .variant v, "ident" => some (.toks v.ident)
  | .variant v, "discriminant" => some (optToks v.discriminant)
  | .typeParam t, "ident" => some (.toks t.ident)
  | .typeParam t, "bounds" => some (.list (t.bounds.map .toks))
  | .typeParam t, "default" => some (optToks t.default)
  | _, _ => none

/-- every produced member is a declared magic member holding exactly the mirrored component -/
theorem earlyParts_sound (has : String → Bool) (el : Elem) (k : String) (v : Val)
    (h : (k, v) ∈ earlyParts has el) : has k = true ∧ component el k = some v := by
  cases el with
  | deriveInput d =>
      simp only [earlyParts, List.mem_append] at h
      rcases h with h | h <;> (split at h <;> simp at h; obtain ⟨rfl, rfl⟩ := h; simp_all [component])
  | field f =>
      simp only [earlyParts, List.mem_append] at h
      rcases h with (h | h) | h <;> (split at h <;> simp at h; obtain ⟨rfl, rfl⟩ := h; simp_all [component])
  | variant x =>
      simp only [earlyParts, List.mem_append] at h
      rcases h with h | h <;> (split at h <;> simp at h; obtain ⟨rfl, rfl⟩ := h; simp_all [component])
  | typeParam t =>
      simp only [earlyParts, List.mem_append] at h
      rcases h with (h | h) | h <;> (split at h <;> simp at h; obtain ⟨rfl, rfl⟩ := h; simp_all [component])
  | attrs as => simp [earlyParts] at h

/-- every declared magic member that the element kind has is produced -/
theorem earlyParts_complete (has : String → Bool) (el : Elem) (k : String) (v : Val)
    (hk : has k = true) (hc : component el k = some v) : (k, v) ∈ earlyParts has el := by
  cases el with
  | deriveInput d =>
      unfold component at hc
      split at hc <;> simp_all [earlyParts]
  | field f =>
      unfold component at hc
      split at hc <;> simp_all [earlyParts]
  | variant x =>
      unfold component at hc
      split at hc <;> simp_all [earlyParts]
  | typeParam t =>
      unfold component at hc
      split at hc <;> simp_all [earlyParts]
  | attrs as =>
      unfold component at hc
      split at hc <;> simp_all

/-- the `?`-chained members (generics, body): all succeed ⇒ the values in order -/
theorem late_ok (parts : List (String × Outcome ν)) (l : List (String × ν))
    (h : lateValues parts = .ok l) : parts = l.map (fun kv => (kv.1, Outcome.ok kv.2)) := by
  induction parts generalizing l with
  | nil => simp [lateValues] at h; subst h; rfl
  | cons p rest ih =>
      obtain ⟨k, o⟩ := p
      unfold lateValues at h
      cases o with
      | ok v =>
          simp only [] at h
          cases hr : lateValues rest with
          | ok l' => rw [hr] at h; simp [Outcome.map] at h; subst h; simp [ih l' hr]
          | err e => rw [hr] at h; simp [Outcome.map] at h
          | panic m => rw [hr] at h; simp [Outcome.map] at h
      | err e => simp at h
      | panic m => simp at h

theorem assemble_ok (r : SOuter ν) (st : PState ν) (attrsVal : Option ν)
    (lateParts : List (String × Outcome ν)) (early : List (String × ν)) (build : List (String × ν) → ν) (v : ν)
    (h : assemble r st attrsVal lateParts early build = .ok v) :
    ∃ a l inits, lateParts = l.map (fun kv => (kv.1, Outcome.ok kv.2)) ∧
      r.fields.post (build (early ++ a ++ l ++ inits)) = .ok v := by
  unfold assemble at h
  cases ha : attrsPart r attrsVal <;> cases hl : lateValues lateParts <;>
    cases hi : initFields r.fields st r.fields.fields <;> rw [ha, hl, hi] at h <;> simp at h
  exact ⟨_, _, _, late_ok _ _ hl, by simpa [List.append_assoc] using h⟩

theorem finishChecked_ok (r : SOuter ν) (st : PState ν) (attrsVal : Option ν)
    (lateParts : List (String × Outcome ν)) (early : List (String × ν)) (build : List (String × ν) → ν) (v : ν)
    (h : finishChecked r st attrsVal lateParts early build = .ok v) :
    ∃ st', assemble r st' attrsVal lateParts early build = .ok v := by
  unfold finishChecked at h
  cases hf : flattenInit r.fields st with
  | error m => rw [hf] at h; cases h
  | ok st1 =>
      rw [hf] at h
      simp only [] at h
      cases he : (checkMissing r.fields.fields st1).errs with
      | nil => rw [he] at h; exact ⟨_, h⟩
      | cons e es =>
          rw [he] at h
          cases es <;> simp [Err.bundleErr, Err.multiple] at h

/-- **A successful receiver is built from the element's own parts, unchanged**: the record handed
    to `build` starts with exactly the pass-through members given (`earlyParts`), followed by the
    `attrs` member, the successfully converted late members (generics, body) and the ordinary
    fields — nothing is dropped, reordered or altered on the way. -/
theorem finishOuter_mirrors (r : SOuter ν) (st : PState ν) (attrsVal : Option ν) (validate : Outcome Unit)
    (lateParts : List (String × Outcome ν)) (early : List (String × ν)) (build : List (String × ν) → ν) (v : ν)
    (h : finishOuter r st attrsVal validate lateParts early build = .ok v) :
    ∃ a l inits, lateParts = l.map (fun kv => (kv.1, Outcome.ok kv.2)) ∧
      r.fields.post (build (early ++ a ++ l ++ inits)) = .ok v := by
  unfold finishOuter at h
  cases validate with
  | panic m => cases h
  | err e =>
      obtain ⟨st', hs⟩ := finishChecked_ok _ _ _ _ _ _ _ h
      exact assemble_ok _ _ _ _ _ _ _ hs
  | ok u =>
      obtain ⟨st', hs⟩ := finishChecked_ok _ _ _ _ _ _ _ h
      exact assemble_ok _ _ _ _ _ _ _ hs

/-! ### the `ast::Generics` mirror -/

theorem collectFirst_ok {β γ : Type} (f : β → Outcome γ) (xs : List β) (vs : List γ)
    (h : collectFirst f xs = .ok vs) : xs.map f = vs.map Outcome.ok := by
  induction xs generalizing vs with
  | nil => simp [collectFirst] at h; subst h; rfl
  | cons x rest ih =>
      unfold collectFirst at h
      cases hx : f x with
      | ok v =>
          rw [hx] at h
          cases hr : collectFirst f rest with
          | ok ws => rw [hr] at h; simp at h; subst h; simp [hx, ih ws hr]
          | err e => rw [hr] at h; simp at h
          | panic m => rw [hr] at h; simp at h
      | err e => rw [hx] at h; simp at h
      | panic m => rw [hx] at h; simp at h

/-- a successful mirror has exactly one converted entry per input parameter, in source order, and
    the where-clause of the input — whether or not there are parameters -/
theorem genericsMirror_ok (wrap : Option (TypeParamD → Outcome Val)) (g : GenericsD) (v : Val)
    (h : genericsMirror wrap g = .ok v) :
    ∃ ps, v = .record "Generics" [("params", .list ps), ("where_clause", whereVal g)] ∧
      g.params.map (gparamMirror wrap) = ps.map Outcome.ok ∧ ps.length = g.params.length := by
  unfold genericsMirror at h
  cases hc : collectFirst (gparamMirror wrap) g.params with
  | ok ps =>
      rw [hc] at h; simp at h
      have hm := collectFirst_ok _ _ _ hc
      exact ⟨ps, h.symm, hm, by simpa using (congrArg List.length hm).symm⟩
  | err e => rw [hc] at h; simp at h
  | panic m => rw [hc] at h; simp at h

/-- the clone instance (`P = syn::GenericParam`) never fails and reproduces every parameter's tokens -/
theorem genericsMirror_clone (g : GenericsD) :
    ∃ ps, genericsMirror none g = .ok (.record "Generics" [("params", .list ps), ("where_clause", whereVal g)]) ∧
      ps.length = g.params.length := by
  have key : ∀ xs : List GParamD, ∃ ps, collectFirst (gparamMirror none) xs = .ok ps ∧ ps.length = xs.length := by
    intro xs
    induction xs with
    | nil => exact ⟨[], rfl, rfl⟩
    | cons x rest ih =>
        obtain ⟨ps, hp, hl⟩ := ih
        cases x with
        | type t => exact ⟨.toks t.toks :: ps, by simp [collectFirst, gparamMirror, hp], by simp [hl]⟩
        | lifetime s => exact ⟨.toks s :: ps, by simp [collectFirst, gparamMirror, hp], by simp [hl]⟩
        | const s => exact ⟨.toks s :: ps, by simp [collectFirst, gparamMirror, hp], by simp [hl]⟩
  obtain ⟨ps, hp, hl⟩ := key g.params
  exact ⟨ps, by simp [genericsMirror, hp], hl⟩

/-- a where-clause without a parameter list is mirrored too -/
example : genericsMirror none { whereToks := "where String : Clone", hasWhere := true } =
    .ok (.record "Generics" [("params", .list []), ("where_clause", .some (.toks "where String : Clone"))]) := by
  simp [genericsMirror, collectFirst, whereVal]

/-! ### printing a converted field list -/

theorem printFields_named (fields : List String) (h : fields ≠ []) :
    printFields .named fields = "{" ++ ",".intercalate fields ++ "," ++ "}" := by
  cases fields with
  | nil => exact absurd rfl h
  | cons f fs => simp [printFields]

theorem printFields_named_empty : printFields .named [] = "{}" := by decide
theorem printFields_tuple (fields : List String) : printFields .tuple fields = "(" ++ ",".intercalate fields ++ ")" := rfl
theorem printFields_unit (fields : List String) : printFields .unit fields = "" := rfl

/-! ### non-vacuity -/

private def fA : FieldD := { ident := some "a", ty := default, tyToks := "u8", vis := "pub", attrs := [] }
private def fB : FieldD := { ident := some "b", ty := default, tyToks := "u16", vis := "", attrs := [] }
private def convToks (f : FieldD) : Outcome Val := if f.tyToks == "u16" then .err (Err.custom "no") else .ok (.toks f.tyToks)

example : NoPanic convToks [fA, fB] := by
  intro x hx
  simp at hx
  rcases hx with rfl | rfl <;> decide

example : failures convToks [fA, fB] = [(Err.custom "no").at "b"] := by
  simp [failures, convToks, fA, fB, located]
example : okVals convToks [fA, fA] = [.toks "u8", .toks "u8"] := by
  simp [okVals, convToks, fA]

end C16
