import Darling.Props.C17
/-
  C17 — an independent, positional specification, written from the property text, and the
  end-to-end theorems tying the model (`Derive.fromList`, `Derive.enumFromList`,
  `Suggest.addSiblingAlts`) to it.
-/
open Suggest Derive

namespace C17
variable {ν : Type}

/-! ## Part 1 — vocabulary of the specification (no model step function is mentioned) -/

/-- a reported unknown name: the name, the suggestion `(similarity, suggested name)`, the span -/
abbrev Unk := String × Option (Nat × String) × Option Span

mutual
/-- the unknown-name errors of a result that have not been located yet, in report order: leaves
    without a location path, reached through bundles without a location path.  These are the
    errors of the item list a receiver was handed *itself*; whatever was rejected inside one of
    its items carries that item's name as a location. -/
def direct : Err → List Unk
  | .leaf k ls sp =>
      (match ls, k with
       | [], .unknownField n d => [(n, d, sp)]
       | _, _ => [])
  | .multi cs ls _ =>
      (match ls with
       | [] => directL cs
       | _ :: _ => [])
def directL : List Err → List Unk
  | [] => []
  | c :: cs => direct c ++ directL cs
end

mutual
/-- the same result with the suggestion removed from every unlocated unknown-name error, and
    nothing else changed -/
def erase : Err → Err
  | .leaf k ls sp =>
      (match ls, k with
       | [], .unknownField n _ => .leaf (.unknownField n none) [] sp
       | _, _ => .leaf k ls sp)
  | .multi cs ls sp =>
      (match ls with
       | [] => .multi (eraseL cs) [] sp
       | _ :: _ => .multi cs ls sp)
def eraseL : List Err → List Err
  | [] => []
  | c :: cs => erase c :: eraseL cs
end

/-- a struct receiver accepts a name iff a member that is neither skipped nor flattened answers
    to it -/
def accepts (r : SStruct ν) (a : String) : Bool :=
  r.fields.any (fun f => !f.skip && !f.flatten && f.name == a)

/-- an enum receiver accepts a name iff a variant that is not skipped answers to it -/
def acceptsV (e : SEnum ν) (a : String) : Bool :=
  e.variants.any (fun v => !v.skip && v.name == a)

/-- **the suggestion the property demands** for the unknown name `n` at a position where exactly
    the names satisfying `acc` are accepted: none if no accepted name is similar enough; otherwise
    an accepted name (hence not `n` itself when `n` is rejected), reported with its own similarity,
    above the threshold, and at least as similar as every accepted name. -/
def BestAmong (thr : Nat) (score : String → String → Nat) (acc : String → Bool) (n : String) :
    Option (Nat × String) → Prop
  | none => ∀ a, acc a = true → score n a ≤ thr
  | some (sc, a) => acc a = true ∧ a ≠ n ∧ sc = score n a ∧ thr < sc ∧ ∀ b, acc b = true → score n b ≤ sc

/-- the items of a list whose name is not accepted at a position, in order -/
def rejected (acc : String → Bool) : List NestedMeta → List Meta
  | [] => []
  | .item m :: rest => if acc m.path'.toStr then rejected acc rest else m :: rejected acc rest
  | .lit _ :: rest => rejected acc rest

/-- **Soundness, optimality and scope** for a receiver function `f` at a position accepting
    `acc`: every unlocated unknown-name error of a result is about an item of the very list `f`
    was handed (never about something inside an item), points at that item, its name is not
    accepted there, and its suggestion is the one the property demands. -/
def Sound (thr : Nat) (score : String → String → Nat) (acc : String → Bool)
    (f : List NestedMeta → Outcome ν) : Prop :=
  ∀ items E, f items = .err E → ∀ n d sp, (n, d, sp) ∈ direct E →
    (∃ m, NestedMeta.item m ∈ items ∧ m.path'.toStr = n ∧ sp = some m.span) ∧
    acc n = false ∧ BestAmong thr score acc n d

/-- **Completeness** (struct chains): every rejected item is reported exactly once, in order,
    as an unlocated unknown-name error at that item; and a successful run had no rejected item. -/
def Complete (acc : String → Bool) (f : List NestedMeta → Outcome ν) : Prop :=
  ∀ items,
    (∀ E, f items = .err E →
      (direct E).map (fun u => (u.1, u.2.2)) = (rejected acc items).map (fun m => (m.path'.toStr, some m.span))) ∧
    (∀ v, f items = .ok v → rejected acc items = [])

/-- a suggestion that was there before is still there or has been replaced by a strictly more
    similar one -/
def NotWorse : Option (Nat × String) → Option (Nat × String) → Prop
  | none, _ => True
  | some (sc, a), d' => d' = some (sc, a) ∨ ∃ sc' a', d' = some (sc', a') ∧ sc < sc'

/-- two reports agree position by position up to `R` -/
inductive Pointwise {α β : Type} (R : α → β → Prop) : List α → List β → Prop
  | nil : Pointwise R [] []
  | cons {a b as bs} : R a b → Pointwise R as bs → Pointwise R (a :: as) (b :: bs)

/-- the user-supplied post-processing function of a receiver (`map` / `and_then`) does not itself
    manufacture unlocated unknown-name errors -/
def PostClean (r : SStruct ν) : Prop := ∀ v E, r.post v = .err E → direct E = []

/-! ## Part 2 — facts about the vocabulary -/

@[simp] theorem directL_nil : directL [] = [] := by simp [directL]
@[simp] theorem directL_cons (c : Err) (cs : List Err) : directL (c :: cs) = direct c ++ directL cs := by
  simp [directL]
theorem directL_append (a b : List Err) : directL (a ++ b) = directL a ++ directL b := by
  induction a with
  | nil => simp
  | cons x xs ih => simp [ih, List.append_assoc]

theorem direct_leaf_unknown (n : String) (d : Option (Nat × String)) (sp : Option Span) :
    direct (.leaf (.unknownField n d) [] sp) = [(n, d, sp)] := by simp [direct]
theorem direct_leaf_located (k : Kind) (l : String) (ls : List String) (sp : Option Span) :
    direct (.leaf k (l :: ls) sp) = [] := by simp [direct]
theorem direct_leaf_other (k : Kind) (ls : List String) (sp : Option Span) (hk : ∀ n d, k ≠ .unknownField n d) :
    direct (.leaf k ls sp) = [] := by
  cases ls <;> cases k <;> simp [direct] <;> exact absurd rfl (hk _ _)
theorem direct_multi_nil (cs : List Err) (sp : Option Span) : direct (.multi cs [] sp) = directL cs := by
  simp [direct]
theorem direct_multi_located (cs : List Err) (l : String) (ls : List String) (sp : Option Span) :
    direct (.multi cs (l :: ls) sp) = [] := by simp [direct]

/-- whatever was rejected inside an item is located: invisible to an enclosing receiver -/
theorem direct_at (e : Err) (l : String) : direct (e.at l) = [] := by
  cases e <;> simp [Err.at, direct]

theorem new_withSpan (k : Kind) (s : Span) : (Err.new k).withSpan s = .leaf k [] (some s) := rfl

/-! ## Part 3 — what an enclosing receiver does to the result of its flatten member -/

/-- the enclosing receiver's treatment of one reported unknown name -/
def improve (thr : Nat) (sc : String → List (String × Nat)) (u : Unk) : Unk :=
  (u.1, addAlts thr u.2.1 (sc u.1), u.2.2)

mutual
theorem direct_sibling (thr : Nat) (sc : String → List (String × Nat)) (e : Err) :
    direct (addSiblingAlts thr sc e) = (direct e).map (improve thr sc) := by
  cases e with
  | leaf k ls sp =>
      cases ls with
      | nil => cases k <;> simp [addSiblingAlts, direct, improve]
      | cons l ls => simp [addSiblingAlts, direct]
  | multi cs ls sp =>
      cases ls with
      | nil => simp [addSiblingAlts, direct, directL_sibling thr sc cs]
      | cons l ls => simp [addSiblingAlts, direct]
theorem directL_sibling (thr : Nat) (sc : String → List (String × Nat)) (es : List Err) :
    directL (addSiblingAltsList thr sc es) = (directL es).map (improve thr sc) := by
  cases es with
  | nil => simp [addSiblingAltsList]
  | cons c cs => simp [addSiblingAltsList, direct_sibling thr sc c, directL_sibling thr sc cs]
end

mutual
/-- **scope**: apart from the suggestions of unlocated unknown-name errors, the enclosing
    receiver changes nothing — every located error keeps whatever it carried -/
theorem erase_sibling (thr : Nat) (sc : String → List (String × Nat)) (e : Err) :
    erase (addSiblingAlts thr sc e) = erase e := by
  cases e with
  | leaf k ls sp =>
      cases ls with
      | nil => cases k <;> simp [addSiblingAlts, erase]
      | cons l ls => simp [addSiblingAlts, erase]
  | multi cs ls sp =>
      cases ls with
      | nil => simp [addSiblingAlts, erase, eraseL_sibling thr sc cs]
      | cons l ls => simp [addSiblingAlts, erase]
theorem eraseL_sibling (thr : Nat) (sc : String → List (String × Nat)) (es : List Err) :
    eraseL (addSiblingAltsList thr sc es) = eraseL es := by
  cases es with
  | nil => simp [addSiblingAltsList]
  | cons c cs => simp [addSiblingAltsList, eraseL, erase_sibling thr sc c, eraseL_sibling thr sc cs]
end

theorem addAlts_nil (thr : Nat) (d : Option (Nat × String)) : addAlts thr d [] = d := by
  simp [addAlts, didYouMean]

theorem improve_nil (thr : Nat) (u : Unk) : improve thr (fun _ => []) u = u := by
  simp [improve, addAlts_nil]

/-! ### the best accepted name -/

theorem best_of_list (thr : Nat) (score : String → String → Nat) (acc : String → Bool) (L : List String)
    (hL : ∀ a, a ∈ L ↔ acc a = true) (n : String) (hn : acc n = false) :
    BestAmong thr score acc n (didYouMean thr (L.map (fun a => (a, score n a)))) := by
  have hb := didYouMean_is_best thr (L.map (fun a => (a, score n a)))
  cases hd : didYouMean thr (L.map (fun a => (a, score n a))) with
  | none =>
      rw [hd] at hb
      intro a ha
      exact hb a (score n a) (List.mem_map.mpr ⟨a, (hL a).mpr ha, rfl⟩)
  | some c =>
      obtain ⟨sc, a⟩ := c
      rw [hd] at hb
      obtain ⟨hm, hgt, hbest⟩ := hb
      obtain ⟨a', ha', heq⟩ := List.mem_map.mp hm
      simp only [Prod.mk.injEq] at heq
      obtain ⟨rfl, rfl⟩ := heq
      have hacc := (hL a').mp ha'
      refine ⟨hacc, ?_, rfl, hgt, ?_⟩
      · intro h; subst h; rw [hn] at hacc; cases hacc
      · intro b hb'
        exact hbest b (score n b) (List.mem_map.mpr ⟨b, (hL b).mpr hb', rfl⟩)

/-- the enclosing receiver's names join the accepted names: the result is the best of both -/
theorem best_improve (thr : Nat) (score : String → String → Nat) (acc1 acc2 : String → Bool) (L : List String)
    (hL : ∀ a, a ∈ L ↔ acc2 a = true) (n : String) (hn : acc2 n = false) (d : Option (Nat × String))
    (hd : BestAmong thr score acc1 n d) :
    BestAmong thr score (fun a => acc2 a || acc1 a) n (addAlts thr d (L.map (fun a => (a, score n a)))) := by
  have h2 := best_of_list thr score acc2 L hL n hn
  unfold addAlts
  cases hd2 : didYouMean thr (L.map (fun a => (a, score n a))) with
  | none =>
      rw [hd2] at h2
      cases d with
      | none =>
          intro a ha
          simp only [Bool.or_eq_true] at ha
          rcases ha with ha | ha
          · exact h2 a ha
          · exact hd a ha
      | some c =>
          obtain ⟨sc, a⟩ := c
          obtain ⟨ha, hne, hsc, hgt, hbest⟩ := hd
          refine ⟨by simp [ha], hne, hsc, hgt, ?_⟩
          intro b hb
          simp only [Bool.or_eq_true] at hb
          rcases hb with hb | hb
          · have := h2 b hb; omega
          · exact hbest b hb
  | some c2 =>
      obtain ⟨s2, a2⟩ := c2
      rw [hd2] at h2
      obtain ⟨ha2, hne2, hsc2, hgt2, hbest2⟩ := h2
      cases d with
      | none =>
          refine ⟨by simp [ha2], hne2, hsc2, hgt2, ?_⟩
          intro b hb
          simp only [Bool.or_eq_true] at hb
          rcases hb with hb | hb
          · exact hbest2 b hb
          · have := hd b hb; omega
      | some c =>
          obtain ⟨sc, a⟩ := c
          obtain ⟨ha, hne, hsc, hgt, hbest⟩ := hd
          by_cases hcmp : s2 > sc
          · simp only [hcmp, if_true]
            refine ⟨by simp [ha2], hne2, hsc2, hgt2, ?_⟩
            intro b hb
            simp only [Bool.or_eq_true] at hb
            rcases hb with hb | hb
            · exact hbest2 b hb
            · have := hbest b hb; omega
          · simp only [hcmp, if_false]
            refine ⟨by simp [ha], hne, hsc, hgt, ?_⟩
            intro b hb
            simp only [Bool.or_eq_true] at hb
            rcases hb with hb | hb
            · have := hbest2 b hb; omega
            · exact hbest b hb

/-- **a better earlier suggestion is never replaced by a worse one** -/
theorem notWorse_addAlts (thr : Nat) (d : Option (Nat × String)) (alts : List (String × Nat)) :
    NotWorse d (addAlts thr d alts) := by
  cases d with
  | none => trivial
  | some c =>
      obtain ⟨sc, a⟩ := c
      unfold addAlts
      cases didYouMean thr alts with
      | none => exact Or.inl rfl
      | some c2 =>
          obtain ⟨s2, a2⟩ := c2
          by_cases hcmp : s2 > sc
          · simp only [hcmp, if_true]; exact Or.inr ⟨s2, a2, rfl, hcmp⟩
          · simp only [hcmp, if_false]; exact Or.inl rfl

/-! ### accepted names of a struct / enum receiver -/

theorem names_iff_accepts (r : SStruct ν) (a : String) : a ∈ r.names ↔ accepts r a = true := by
  rw [struct_candidates]
  simp only [accepts, List.any_eq_true, Bool.and_eq_true, Bool.not_eq_true', beq_iff_eq]
  constructor
  · rintro ⟨f, hf, h1, h2, h3⟩; exact ⟨f, hf, ⟨h1, h2⟩, h3⟩
  · rintro ⟨f, hf, ⟨h1, h2⟩, h3⟩; exact ⟨f, hf, h1, h2, h3⟩

/-- the specification's "accepted" is the model's dispatch: a match arm exists -/
theorem accepts_eq_arm (r : SStruct ν) (a : String) : accepts r a = (r.arm a).isSome := by
  rw [Bool.eq_iff_iff, SStruct.arm, List.find?_isSome, accepts, List.any_eq_true]

theorem namesV_iff_accepts (e : SEnum ν) (a : String) : a ∈ e.names ↔ acceptsV e a = true := by
  simp only [SEnum.names, List.mem_map, List.mem_filter, acceptsV, List.any_eq_true, Bool.and_eq_true,
    Bool.not_eq_true', beq_iff_eq]
  constructor
  · rintro ⟨v, ⟨hv, hs⟩, hn⟩; exact ⟨v, hv, hs, hn⟩
  · rintro ⟨v, hv, hs, hn⟩; exact ⟨v, ⟨hv, hs⟩, hn⟩

theorem acceptsV_eq_arm (e : SEnum ν) (a : String) : acceptsV e a = (e.arm a).isSome := by
  rw [Bool.eq_iff_iff, SEnum.arm, List.find?_isSome, acceptsV, List.any_eq_true]

/-! ## Part 4 — the model's struct receiver, followed through its run -/

theorem rejected_cons (acc : String → Bool) (it : NestedMeta) (rest : List NestedMeta) :
    rejected acc (it :: rest) = rejected acc [it] ++ rejected acc rest := by
  cases it with
  | lit l => simp [rejected]
  | item m => by_cases h : acc m.path'.toStr = true <;> simp [rejected, h]

theorem rejected_append (acc : String → Bool) (xs ys : List NestedMeta) :
    rejected acc (xs ++ ys) = rejected acc xs ++ rejected acc ys := by
  induction xs with
  | nil => simp [rejected]
  | cons x xs ih => rw [List.cons_append, rejected_cons, ih, rejected_cons acc x xs, List.append_assoc]

theorem rejected_mem (acc : String → Bool) (items : List NestedMeta) (m : Meta) (h : m ∈ rejected acc items) :
    NestedMeta.item m ∈ items ∧ acc m.path'.toStr = false := by
  induction items with
  | nil => simp [rejected] at h
  | cons it rest ih =>
      cases it with
      | lit l =>
          simp only [rejected] at h
          exact ⟨List.mem_cons_of_mem _ (ih h).1, (ih h).2⟩
      | item m' =>
          simp only [rejected] at h
          by_cases hc : acc m'.path'.toStr = true
          · simp only [hc, if_true] at h
            exact ⟨List.mem_cons_of_mem _ (ih h).1, (ih h).2⟩
          · simp only [hc] at h
            rcases List.mem_cons.mp h with h | h
            · subst h; exact ⟨List.mem_cons_self, by simpa using hc⟩
            · exact ⟨List.mem_cons_of_mem _ (ih h).1, (ih h).2⟩

/-- handing the rejected items on to a receiver accepting `acc`: what is rejected there is what
    neither accepts -/
theorem rejected_handed (p acc : String → Bool) (items : List NestedMeta) :
    rejected acc ((rejected p items).map NestedMeta.item) = rejected (fun a => p a || acc a) items := by
  induction items with
  | nil => simp [rejected]
  | cons it rest ih =>
      cases it with
      | lit l => simpa [rejected] using ih
      | item m =>
          by_cases hp : p m.path'.toStr = true
          · simp [rejected, hp, ih]
          · by_cases ha : acc m.path'.toStr = true
            · simp [rejected, hp, ha, ih]
            · simp [rejected, hp, ha, ih]

/-- the suggestion a struct receiver computes from its own names -/
def ownSuggestion (r : SStruct ν) (n : String) : Option (Nat × String) :=
  didYouMean r.thr (r.names.map (fun a => (a, r.score n a)))

/-- the unlocated unknown-name errors a struct receiver reports for its own item list -/
def ownUnknowns (r : SStruct ν) (items : List NestedMeta) : List Unk :=
  if r.hasFlatten || r.allowUnknown then [] else
    (rejected (accepts r) items).map (fun m => (m.path'.toStr, ownSuggestion r m.path'.toStr, some m.span))

/-- the items a struct receiver hands on to its flatten member -/
def handedOn (r : SStruct ν) (items : List NestedMeta) : List NestedMeta :=
  if r.hasFlatten then (rejected (accepts r) items).map NestedMeta.item else []

theorem ownUnknowns_cons (r : SStruct ν) (it : NestedMeta) (rest : List NestedMeta) :
    ownUnknowns r (it :: rest) = ownUnknowns r [it] ++ ownUnknowns r rest := by
  unfold ownUnknowns
  rw [rejected_cons]
  by_cases h : (r.hasFlatten || r.allowUnknown) = true <;> simp [h]

theorem handedOn_cons (r : SStruct ν) (it : NestedMeta) (rest : List NestedMeta) :
    handedOn r (it :: rest) = handedOn r [it] ++ handedOn r rest := by
  unfold handedOn
  rw [rejected_cons]
  by_cases h : r.hasFlatten = true <;> simp [h]

theorem direct_unknownErr (r : SStruct ν) (n : String) (s : Span) :
    direct ((r.unknownErr n).withSpan s) = [(n, ownSuggestion r n, some s)] := by
  simp [SStruct.unknownErr, new_withSpan, direct, ownSuggestion]

theorem direct_fresh (k : Kind) (s : Span) (hk : ∀ n d, k ≠ .unknownField n d) :
    direct ((Err.new k).withSpan s) = [] := by
  rw [new_withSpan]; exact direct_leaf_other k [] (some s) hk

/-- one item: the unlocated unknown-name errors and the hand-over buffer grow exactly as said -/
theorem stepItem_track (r : SStruct ν) (st st' : PState ν) (it : NestedMeta) (h : stepItem r st it = .ok st') :
    directL st'.errs = directL st.errs ++ ownUnknowns r [it] ∧ st'.flat = st.flat ++ handedOn r [it] := by
  cases it with
  | lit l =>
      simp only [stepItem, Except.ok.injEq] at h
      subst h
      simp [PState.push, directL_append, ownUnknowns, handedOn, rejected, Err.unsupportedFormat, direct_fresh]
  | item inner =>
      simp only [stepItem] at h
      cases harm : r.arm inner.path'.toStr with
      | some f =>
          have hacc : accepts r inner.path'.toStr = true := by rw [accepts_eq_arm, harm]; rfl
          have hown : ownUnknowns r [NestedMeta.item inner] = [] := by simp [ownUnknowns, rejected, hacc]
          have hhand : handedOn r [NestedMeta.item inner] = [] := by simp [handedOn, rejected, hacc]
          rw [hown, hhand]
          simp only [harm] at h
          split at h
          · split at h
            · simp only [Except.ok.injEq] at h; subst h; simp [PState.set]
            · simp only [Except.ok.injEq] at h; subst h
              simp [PState.push, PState.set, directL_append, direct_at]
            · cases h
          · split at h
            · split at h
              · simp only [Except.ok.injEq] at h; subst h; simp [PState.set]
              · simp only [Except.ok.injEq] at h; subst h
                simp [PState.push, PState.set, directL_append, direct_at]
              · cases h
            · simp only [Except.ok.injEq] at h; subst h
              simp [PState.push, directL_append, direct_fresh]
      | none =>
          have hacc : accepts r inner.path'.toStr = false := by rw [accepts_eq_arm, harm]; rfl
          simp only [harm] at h
          cases hf : r.hasFlatten with
          | true =>
              simp only [hf, if_true, Except.ok.injEq] at h; subst h
              simp [ownUnknowns, handedOn, rejected, hacc, hf]
          | false =>
              cases ha : r.allowUnknown with
              | true =>
                  simp only [hf, ha, if_true, Bool.false_eq_true, if_false, Except.ok.injEq] at h; subst h
                  simp [ownUnknowns, handedOn, hf, ha]
              | false =>
                  simp only [hf, ha, Bool.false_eq_true, if_false, Except.ok.injEq] at h; subst h
                  simp [PState.push, directL_append, direct_unknownErr, ownUnknowns, handedOn, rejected, hacc, hf, ha]

theorem coreLoop_track (r : SStruct ν) (items : List NestedMeta) (st st' : PState ν)
    (h : coreLoop r st items = .ok st') :
    directL st'.errs = directL st.errs ++ ownUnknowns r items ∧ st'.flat = st.flat ++ handedOn r items := by
  induction items generalizing st with
  | nil =>
      simp only [coreLoop, Except.ok.injEq] at h; subst h
      simp [ownUnknowns, handedOn, rejected]
  | cons it rest ih =>
      simp only [coreLoop] at h
      cases hs : stepItem r st it with
      | error m => rw [hs] at h; cases h
      | ok st1 =>
          rw [hs] at h
          obtain ⟨h1, h2⟩ := stepItem_track r st st1 it hs
          obtain ⟨h3, h4⟩ := ih st1 h
          rw [ownUnknowns_cons, handedOn_cons, h3, h4, h1, h2]
          simp [List.append_assoc]

/-- the names of the enclosing receiver, scored against an unknown name -/
def parentScores (r : SStruct ν) : String → List (String × Nat) :=
  fun n => r.names.map (fun a => (a, r.score n a))

/-- what the flatten member of `r` (if any) answers for the items handed on to it -/
def memberResult (r : SStruct ν) (items : List NestedMeta) : Option (Outcome ν) :=
  (r.fields.find? (·.flatten)).map (fun ff => ff.fromList (handedOn r items))

/-- the member's error as the enclosing receiver reports it -/
def lifted (r : SStruct ν) (e : Err) : Err :=
  if r.names.isEmpty then e else addSiblingAlts r.thr (parentScores r) e

def memberErrs (r : SStruct ν) (items : List NestedMeta) : List Err :=
  match memberResult r items with
  | some (.err e) => [lifted r e]
  | _ => []

theorem direct_lifted (r : SStruct ν) (e : Err) :
    direct (lifted r e) = (direct e).map (improve r.thr (parentScores r)) := by
  unfold lifted
  cases hn : r.names with
  | nil =>
      have : parentScores r = fun _ => [] := by funext n; simp [parentScores, hn]
      rw [this]
      have hid : improve r.thr (fun _ => []) = id := by funext u; exact improve_nil _ u
      simp [hid]
  | cons a as => simp [direct_sibling]

theorem erase_lifted (r : SStruct ν) (e : Err) : erase (lifted r e) = erase e := by
  unfold lifted
  split
  · rfl
  · exact erase_sibling _ _ e

theorem lift_result (r : SStruct ν) (res : Outcome ν) :
    (if r.names.isEmpty then res
     else res.mapErr (addSiblingAlts r.thr (fun n => r.names.map (fun a => (a, r.score n a)))))
      = res.mapErr (lifted r) := by
  unfold lifted parentScores
  cases res <;> cases r.names.isEmpty <;> simp [Outcome.mapErr]

theorem flattenInit_track (r : SStruct ν) (items : List NestedMeta) (st st' : PState ν)
    (hflat : st.flat = handedOn r items) (h : flattenInit r st = .ok st') :
    st'.errs = st.errs ++ memberErrs r items ∧ ∀ m, memberResult r items ≠ some (.panic m) := by
  unfold flattenInit at h
  unfold memberErrs memberResult
  cases hff : r.fields.find? (·.flatten) with
  | none =>
      simp only [hff, Except.ok.injEq] at h; subst h
      simp
  | some ff =>
      simp only [hff, lift_result] at h
      rw [hflat] at h
      simp only [Option.map_some]
      cases hres : ff.fromList (handedOn r items) with
      | ok v =>
          simp only [hres, Outcome.mapErr, Except.ok.injEq] at h; subst h
          simp [PState.set]
      | err e =>
          simp only [hres, Outcome.mapErr, Except.ok.injEq] at h; subst h
          simp [PState.set, PState.push]
      | panic m =>
          simp only [hres, Outcome.mapErr] at h
          cases h

theorem checkMissing_track (fs : List (SField ν)) (st : PState ν) :
    ∃ ms, (checkMissing fs st).errs = st.errs ++ ms ∧ directL ms = [] ∧ eraseL ms = ms := by
  induction fs generalizing st with
  | nil => exact ⟨[], by simp [checkMissing], rfl, rfl⟩
  | cons f rest ih =>
      simp only [checkMissing]
      split
      · split
        · split
          · obtain ⟨ms, h1, h2, h3⟩ := ih (st.set f.ident { st.slot f.ident with val := some _ })
            exact ⟨ms, by rw [h1]; rfl, h2, h3⟩
          · obtain ⟨ms, h1, h2, h3⟩ := ih (st.push (Err.new (.missingField f.name)))
            refine ⟨Err.new (.missingField f.name) :: ms, ?_, ?_, ?_⟩
            · rw [h1]; simp [PState.push]
            · simp [h2, Err.new, direct]
            · simp [eraseL, h3, Err.new, erase]
        · exact ih st
      · exact ih st

theorem direct_multiple (errs : List Err) (E : Err) (h : Err.multiple errs = .ok E) :
    direct E = directL errs := by
  match errs, h with
  | [e], h => simp only [Err.multiple, Outcome.ok.injEq] at h; subst h; simp
  | e1 :: e2 :: rest, h =>
      simp only [Err.multiple, Outcome.ok.injEq] at h; subst h; simp [direct]

theorem bundleErr_err (errs : List Err) (E : Err) (h : (Err.bundleErr errs : Outcome ν) = .err E) :
    Err.multiple errs = .ok E := by
  unfold Err.bundleErr at h
  match errs, h with
  | [], h => simp [Err.multiple] at h
  | [e], h => simpa [Err.multiple] using h
  | e1 :: e2 :: rest, h => simpa [Err.multiple] using h

theorem defaultValue_not_err (r : SStruct ν) (f : SField ν) (d : DefaultSrc ν) (e : Err) :
    defaultValue r f d ≠ .err e := by
  unfold defaultValue
  cases d with
  | value v => simp
  | inherit => cases r.containerDefault <;> simp

theorem initField_not_err (r : SStruct ν) (st : PState ν) (f : SField ν) (e : Err) :
    initField r st f ≠ .err e := by
  unfold initField
  intro h
  simp only at h
  split at h
  · split at h
    · split at h
      · cases h
      · exact defaultValue_not_err r f _ e h
    · cases h
  · split at h
    · split at h
      · cases h
      · exact defaultValue_not_err r f _ e h
    · split at h <;> cases h

theorem initFields_not_err (r : SStruct ν) (st : PState ν) (fs : List (SField ν)) (e : Err) :
    initFields r st fs ≠ .err e := by
  induction fs generalizing e with
  | nil => simp [initFields]
  | cons f rest ih =>
      intro h
      simp only [initFields] at h
      split at h
      · cases hr : initFields r st rest with
        | ok x => rw [hr] at h; simp [Outcome.map] at h
        | err e' => exact ih e' hr
        | panic m => rw [hr] at h; simp [Outcome.map] at h
      · rename_i e' he'
        exact initField_not_err r st f e' he'
      · cases h

/-- **the run of a struct receiver, in one statement**: either it panics, or it reports a bundle
    made of its own item-level errors, its flatten member's verdict as lifted, and errors that
    are not unknown-name errors; or nothing was wrong and the post-processing function decides -/
theorem fromList_parts (r : SStruct ν) (items : List NestedMeta) :
    (∃ m, fromList r items = .panic m) ∨
    ((∀ m, memberResult r items ≠ some (.panic m)) ∧
      ((∃ own ms, own ++ memberErrs r items ++ ms ≠ [] ∧
          fromList r items = Err.bundleErr (own ++ memberErrs r items ++ ms) ∧
          directL own = ownUnknowns r items ∧ directL ms = [] ∧ eraseL ms = ms) ∨
       (ownUnknowns r items = [] ∧ memberErrs r items = [] ∧
          ((∃ v, fromList r items = r.post v) ∨ ∃ m, fromList r items = .panic m)))) := by
  unfold fromList
  cases hc : coreLoop r {} items with
  | error m => exact Or.inl ⟨m, rfl⟩
  | ok st =>
      obtain ⟨hd, hf⟩ := coreLoop_track r items {} st hc
      simp only [List.nil_append, directL_nil] at hd hf
      simp only [finishStruct, if_true]
      cases hfi : flattenInit r st with
      | error m => exact Or.inl ⟨m, rfl⟩
      | ok st1 =>
          obtain ⟨h1, hnp⟩ := flattenInit_track r items st st1 hf hfi
          obtain ⟨ms, h2, h3, h4⟩ := checkMissing_track r.fields st1
          simp only
          refine Or.inr ⟨hnp, ?_⟩
          cases herrs : (checkMissing r.fields st1).errs with
          | cons e es =>
              refine Or.inl ⟨st.errs, ms, ?_, ?_, hd, h3, h4⟩
              · rw [← h1, ← h2, herrs]; simp
              · rw [← h1, ← h2, herrs]
          | nil =>
              rw [herrs] at h2
              have hnil : st1.errs = [] ∧ ms = [] := by simpa using h2.symm
              rw [hnil.1] at h1
              have hnil2 : st.errs = [] ∧ memberErrs r items = [] := by simpa using h1.symm
              refine Or.inr ⟨?_, hnil2.2, ?_⟩
              · rw [← hd, hnil2.1]; rfl
              · cases hi : initFields r (checkMissing r.fields st1) r.fields with
                | ok kvs => exact Or.inl ⟨_, rfl⟩
                | err e => exact absurd hi (initFields_not_err r _ _ e)
                | panic m => exact Or.inr ⟨m, rfl⟩

/-! ## Part 5 — the end-to-end theorems for struct receivers -/

theorem bundleErr_not_ok (errs : List Err) (v : ν) : (Err.bundleErr errs : Outcome ν) ≠ .ok v := by
  unfold Err.bundleErr
  match errs with
  | [] => simp [Err.multiple]
  | [e] => simp [Err.multiple]
  | e1 :: e2 :: rest => simp [Err.multiple]

/-- the unlocated unknown-name errors of a struct receiver's result: its own, then its member's
    as lifted -/
theorem fromList_direct (r : SStruct ν) (hp : PostClean r) (items : List NestedMeta) (E : Err)
    (h : fromList r items = .err E) :
    direct E = ownUnknowns r items ++ directL (memberErrs r items) := by
  rcases fromList_parts r items with ⟨m, hm⟩ | ⟨_, ⟨own, ms, _, hb, hown, hms, _⟩ | ⟨hown, hmem, hpost | ⟨m, hm⟩⟩⟩
  · rw [hm] at h; cases h
  · rw [hb] at h
    rw [direct_multiple _ E (bundleErr_err _ E h), directL_append, directL_append, hown, hms, List.append_nil]
  · obtain ⟨v, hv⟩ := hpost
    rw [hv] at h
    rw [hp v E h, hown, hmem]; rfl
  · rw [hm] at h; cases h

theorem find_none_of_noFlatten (r : SStruct ν) (h : r.hasFlatten = false) :
    r.fields.find? (·.flatten) = none := by
  rw [List.find?_eq_none]
  intro f hf
  have := List.any_eq_false.mp h f hf
  simpa using this

theorem hasFlatten_of_find (r : SStruct ν) (ff : SField ν) (h : r.fields.find? (·.flatten) = some ff) :
    r.hasFlatten = true := by
  unfold SStruct.hasFlatten
  rw [List.any_eq_true]
  exact ⟨ff, List.mem_of_find?_eq_some h, List.find?_some h⟩

theorem memberErrs_noFlatten (r : SStruct ν) (h : r.hasFlatten = false) (items : List NestedMeta) :
    memberErrs r items = [] := by
  simp [memberErrs, memberResult, find_none_of_noFlatten r h]

theorem ownUnknowns_flatten (r : SStruct ν) (h : r.hasFlatten = true) (items : List NestedMeta) :
    ownUnknowns r items = [] := by
  simp [ownUnknowns, h]

theorem handedOn_flatten (r : SStruct ν) (h : r.hasFlatten = true) (items : List NestedMeta) :
    handedOn r items = (rejected (accepts r) items).map NestedMeta.item := by
  simp [handedOn, h]

/-- **C17 for a struct receiver without a flatten member**: every unknown-name error it reports
    unlocated is about one of its own items, and carries the best accepted name, if any is
    similar enough. -/
theorem closed_sound_partial (r : SStruct ν) (hnf : r.hasFlatten = false) (hp : PostClean r) :
    Sound r.thr r.score (accepts r) (fromList r) := by
  intro items E h n d sp hmem
  rw [fromList_direct r hp items E h, memberErrs_noFlatten r hnf, directL_nil, List.append_nil] at hmem
  unfold ownUnknowns at hmem
  split at hmem
  · cases hmem
  · obtain ⟨m, hm, heq⟩ := List.mem_map.mp hmem
    simp only [Prod.mk.injEq] at heq
    obtain ⟨rfl, rfl, rfl⟩ := heq
    obtain ⟨hin, hrej⟩ := rejected_mem _ _ _ hm
    exact ⟨⟨m, hin, rfl, rfl⟩, hrej, best_of_list r.thr r.score (accepts r) r.names (names_iff_accepts r) _ hrej⟩

/-- **C17 across a flatten hand-over**: if the flatten member's receiver meets the property for
    the names `acc`, the enclosing receiver meets it for its own names together with `acc` —
    about the enclosing receiver's own item list. -/
theorem flatten_sound_partial (r : SStruct ν) (ff : SField ν) (hff : r.fields.find? (·.flatten) = some ff)
    (hp : PostClean r) (acc : String → Bool) (hmemb : Sound r.thr r.score acc ff.fromList) :
    Sound r.thr r.score (fun a => accepts r a || acc a) (fromList r) := by
  intro items E h n d sp hmem
  have hfl := hasFlatten_of_find r ff hff
  rw [fromList_direct r hp items E h, ownUnknowns_flatten r hfl, List.nil_append] at hmem
  unfold memberErrs memberResult at hmem
  rw [hff, Option.map_some] at hmem
  cases hres : ff.fromList (handedOn r items) with
  | ok v => rw [hres] at hmem; cases hmem
  | panic m => rw [hres] at hmem; cases hmem
  | err e =>
      rw [hres] at hmem
      simp only [directL_cons, directL_nil, List.append_nil, direct_lifted] at hmem
      obtain ⟨u, hu, heq⟩ := List.mem_map.mp hmem
      obtain ⟨n0, d0, sp0⟩ := u
      simp only [improve, Prod.mk.injEq] at heq
      obtain ⟨rfl, rfl, rfl⟩ := heq
      obtain ⟨⟨m, hin, hname, hspan⟩, hrej, hbest⟩ := hmemb _ e hres n0 d0 sp0 hu
      rw [handedOn_flatten r hfl] at hin
      obtain ⟨m', hm', hmm⟩ := List.mem_map.mp hin
      cases hmm
      obtain ⟨hin', hrej'⟩ := rejected_mem _ _ _ hm'
      rw [hname] at hrej'
      refine ⟨⟨m, hin', hname, hspan⟩, by simp [hrej, hrej'], ?_⟩
      exact best_improve r.thr r.score acc (accepts r) r.names (names_iff_accepts r) n0 hrej' d0 hbest

/-- **nothing is lost, nothing invented** (receiver without flatten member that does not allow
    unknown names): the unlocated unknown-name errors are the rejected items, one each, in order -/
theorem closed_complete_partial (r : SStruct ν) (hnf : r.hasFlatten = false) (hna : r.allowUnknown = false)
    (hp : PostClean r) : Complete (accepts r) (fromList r) := by
  intro items
  constructor
  · intro E h
    rw [fromList_direct r hp items E h, memberErrs_noFlatten r hnf, directL_nil, List.append_nil]
    simp [ownUnknowns, hnf, hna, List.map_map, Function.comp_def]
  · intro v h
    rcases fromList_parts r items with ⟨m, hm⟩ | ⟨_, ⟨own, ms, _, hb, _⟩ | ⟨hown, _, _⟩⟩
    · rw [hm] at h; cases h
    · rw [hb] at h; exact absurd h (bundleErr_not_ok _ v)
    · simpa [ownUnknowns, hnf, hna] using hown

/-- … and across a flatten hand-over -/
theorem flatten_complete_partial (r : SStruct ν) (ff : SField ν) (hff : r.fields.find? (·.flatten) = some ff)
    (hp : PostClean r) (acc : String → Bool) (hmemb : Complete acc ff.fromList) :
    Complete (fun a => accepts r a || acc a) (fromList r) := by
  intro items
  have hfl := hasFlatten_of_find r ff hff
  have hmr : memberResult r items = some (ff.fromList ((rejected (accepts r) items).map NestedMeta.item)) := by
    simp [memberResult, hff, handedOn_flatten r hfl]
  obtain ⟨hc1, hc2⟩ := hmemb ((rejected (accepts r) items).map NestedMeta.item)
  rw [rejected_handed] at hc1 hc2
  have hnp : (∃ m, fromList r items = .panic m) ∨ ∀ m, memberResult r items ≠ some (.panic m) := by
    rcases fromList_parts r items with h | ⟨h, _⟩
    · exact Or.inl h
    · exact Or.inr h
  constructor
  · intro E h
    rw [fromList_direct r hp items E h, ownUnknowns_flatten r hfl, List.nil_append]
    unfold memberErrs
    rw [hmr]
    cases hres : ff.fromList ((rejected (accepts r) items).map NestedMeta.item) with
    | ok v => simpa using (hc2 v hres)
    | err e =>
        simp only [directL_cons, directL_nil, List.append_nil, direct_lifted, List.map_map]
        rw [← hc1 e hres]
        rfl
    | panic m =>
        rcases hnp with ⟨m', hm'⟩ | hnp
        · rw [hm'] at h; cases h
        · exact absurd (by rw [hmr, hres]) (hnp m)
  · intro v h
    rcases fromList_parts r items with ⟨m, hm⟩ | ⟨hnp', ⟨own, ms, _, hb, _⟩ | ⟨_, hmem, _⟩⟩
    · rw [hm] at h; cases h
    · rw [hb] at h; exact absurd h (bundleErr_not_ok _ v)
    · unfold memberErrs at hmem
      rw [hmr] at hmem
      cases hres : ff.fromList ((rejected (accepts r) items).map NestedMeta.item) with
      | ok v' => exact hc2 v' hres
      | err e => rw [hres] at hmem; cases hmem
      | panic m => exact absurd (by rw [hmr, hres]) (hnp' m)

theorem pointwise_map {α β : Type} (R : α → β → Prop) (g : α → β) (h : ∀ a, R a (g a)) (l : List α) :
    Pointwise R l (l.map g) := by
  induction l with
  | nil => exact .nil
  | cons a as ih => exact .cons (h a) ih

theorem multiple_ok (errs : List Err) (E : Err) (h : Err.multiple errs = .ok E) :
    errs = [E] ∨ E = .multi errs [] none := by
  match errs, h with
  | [e], h => simp only [Err.multiple, Outcome.ok.injEq] at h; subst h; exact Or.inl rfl
  | e1 :: e2 :: rest, h => simp only [Err.multiple, Outcome.ok.injEq] at h; subst h; exact Or.inr rfl

/-- **scope and monotonicity, end to end.**  When the flatten member fails with `Em`, the
    enclosing receiver reports an error `Em'` in its place (alone, or as one element of an
    unlocated bundle) such that
    * apart from the suggestions of unlocated unknown-name errors `Em'` *is* `Em`: whatever was
      rejected inside one of the member's items (located) is reported untouched;
    * position by position the unlocated unknown-name errors keep name and span, and a
      suggestion is kept or replaced by a strictly more similar one;
    * and these are all the unlocated unknown-name errors of the whole result. -/
theorem flatten_report_partial (r : SStruct ν) (ff : SField ν) (hff : r.fields.find? (·.flatten) = some ff)
    (hp : PostClean r) (items : List NestedMeta) (Em E : Err)
    (hm : ff.fromList ((rejected (accepts r) items).map NestedMeta.item) = .err Em)
    (h : fromList r items = .err E) :
    ∃ Em', erase Em' = erase Em ∧
      Pointwise (fun u u' => u'.1 = u.1 ∧ u'.2.2 = u.2.2 ∧ NotWorse u.2.1 u'.2.1) (direct Em) (direct Em') ∧
      direct E = direct Em' ∧
      (E = Em' ∨ ∃ pre post, E = .multi (pre ++ Em' :: post) [] none) := by
  have hfl := hasFlatten_of_find r ff hff
  have hme : memberErrs r items = [lifted r Em] := by
    simp [memberErrs, memberResult, hff, handedOn_flatten r hfl, hm]
  refine ⟨lifted r Em, erase_lifted r Em, ?_, ?_, ?_⟩
  · rw [direct_lifted]
    apply pointwise_map
    intro u
    exact ⟨rfl, rfl, notWorse_addAlts _ _ _⟩
  · rw [fromList_direct r hp items E h, ownUnknowns_flatten r hfl, hme]; simp
  · rcases fromList_parts r items with ⟨m, hm'⟩ | ⟨_, ⟨own, ms, _, hb, _⟩ | ⟨_, hmem, _⟩⟩
    · rw [hm'] at h; cases h
    · rw [hb, hme] at h
      rcases multiple_ok _ E (bundleErr_err _ E h) with h1 | h1
      · left
        cases own with
        | nil => simp at h1; exact h1.1.symm
        | cons x xs => simp at h1
      · right
        exact ⟨own, ms, by rw [h1]; simp⟩
    · rw [hme] at hmem; cases hmem

/-! ## Part 6 — enum receivers -/

/-- the struct variants' post-processing functions do not manufacture unlocated unknown-name
    errors (the derive emits none for variants) -/
def VariantsClean (e : SEnum ν) : Prop := ∀ v ∈ e.variants, ∀ s, v.kind = .struct s → PostClean s

theorem direct_new (k : Kind) (hk : ∀ n d, k ≠ .unknownField n d) : direct (Err.new k) = [] :=
  direct_leaf_other k [] none hk

theorem finishStruct_located (s : SStruct ν) (hp : PostClean s) (l : String) (st : PState ν) (E : Err)
    (h : finishStruct s true (some l) st = .err E) : direct E = [] := by
  simp only [finishStruct, if_true] at h
  split at h
  · cases h
  · split at h
    · rename_i errs e es herrs
      rw [herrs] at h
      cases hb : (Err.bundleErr (e :: es) : Outcome ν) with
      | ok v => exact absurd hb (bundleErr_not_ok _ v)
      | err e' =>
          rw [hb] at h
          simp only [Outcome.mapErr, Outcome.err.injEq] at h
          subst h
          exact direct_at _ _
      | panic m => rw [hb] at h; cases h
    · split at h
      · exact hp _ E h
      · rename_i e he; exact absurd he (initFields_not_err _ _ _ e)
      · cases h

theorem dataArm_located (v : SVariant ν) (hp : ∀ s, v.kind = .struct s → PostClean s) (nested : Meta) (E : Err)
    (h : dataArm v nested = .err E) : direct E = [] := by
  unfold dataArm at h
  split at h
  · split at h
    · cases h
    · simp only [Outcome.err.injEq] at h; subst h
      exact direct_new _ (by intro n d hh; cases hh)
  · rename_i fromMeta fromNone wrap hk
    cases hf : fromMeta nested with
    | ok x => rw [hf] at h; simp [Outcome.mapErr, Outcome.map] at h
    | err e =>
        rw [hf] at h
        simp only [Outcome.mapErr, Outcome.map, Outcome.err.injEq] at h
        subst h
        exact direct_at _ _
    | panic m => rw [hf] at h; simp [Outcome.mapErr, Outcome.map] at h
  · rename_i s hk
    split at h
    · split at h
      · simp only [Outcome.err.injEq] at h; subst h
        exact direct_at _ _
      · split at h
        · cases h
        · exact finishStruct_located s (hp s hk) _ _ E h
    · simp only [Outcome.err.injEq] at h; subst h
      exact direct_new _ (by intro n d hh; cases hh)

/-- attaching a span makes no located (or other) error an unlocated unknown-name error -/
theorem direct_withSpan_nil (e : Err) (s : Span) (h : direct e = []) : direct (e.withSpan s) = [] := by
  cases e with
  | leaf k ls sp =>
      cases sp with
      | some t => exact h
      | none => cases ls <;> cases k <;> first | rfl | (simp [direct] at h)
  | multi cs ls sp => cases sp <;> exact h

/-- what the selected variant reports, spanned with the selecting item -/
theorem dataArm_spanned_located (v : SVariant ν) (hp : ∀ s, v.kind = .struct s → PostClean s) (nested : Meta) (E : Err)
    (h : (dataArm v nested).mapErr (·.withSpan nested.span) = .err E) : direct E = [] := by
  cases hd : dataArm v nested with
  | ok x => rw [hd] at h; cases h
  | panic m => rw [hd] at h; cases h
  | err E0 =>
      rw [hd] at h
      simp only [Outcome.mapErr, Outcome.err.injEq] at h
      subst h
      exact direct_withSpan_nil _ _ (dataArm_located v hp nested E0 hd)

/-- **C17 for an enum receiver**: the only unlocated unknown-name error it can report is about
    the single item it was handed, when no selectable variant answers to that name; the
    suggestion is the best selectable variant name, if similar enough -/
theorem enum_sound (e : SEnum ν) (hc : VariantsClean e) :
    Sound e.thr e.score (acceptsV e) (enumFromList e) := by
  intro outer E h n d sp hmem
  unfold enumFromList at h
  split at h
  · simp only [Outcome.err.injEq] at h; subst h
    rw [direct_new _ (by intro n d hh; cases hh)] at hmem; cases hmem
  · rename_i nested
    simp only at h
    cases harm : e.arm nested.path'.toStr with
    | some v =>
        rw [harm] at h
        have hv : v ∈ e.variants := List.mem_of_find?_eq_some harm
        rw [dataArm_spanned_located v (hc v hv) nested E h] at hmem; cases hmem
    | none =>
        rw [harm] at h
        simp only [Outcome.err.injEq] at h; subst h
        have hrej : acceptsV e nested.path'.toStr = false := by rw [acceptsV_eq_arm, harm]; rfl
        have hdir : direct ((e.unknownErr nested.path'.toStr).withSpan nested.span)
            = [(nested.path'.toStr, didYouMean e.thr (e.names.map (fun a => (a, e.score nested.path'.toStr a))), some nested.span)] := by
          unfold SEnum.unknownErr
          split
          · rename_i hemp
            have : e.names = [] := by
              simp only [Bool.and_eq_true, List.isEmpty_iff] at hemp; exact hemp.1
            simp [this, new_withSpan, direct, didYouMean]
          · simp [new_withSpan, direct]
        rw [hdir] at hmem
        simp only [List.mem_singleton, Prod.mk.injEq] at hmem
        obtain ⟨rfl, rfl, rfl⟩ := hmem
        exact ⟨⟨nested, by simp, rfl, rfl⟩, hrej,
          best_of_list e.thr e.score (acceptsV e) e.names (namesV_iff_accepts e) _ hrej⟩
  · simp only [Outcome.err.injEq] at h; subst h
    rw [Err.unsupportedFormat, direct_new _ (by intro n d hh; cases hh)] at hmem; cases hmem
  · simp only [Outcome.err.injEq] at h; subst h
    rw [direct_new _ (by intro n d hh; cases hh)] at hmem; cases hmem

/-- … and inside a struct variant everything is located at the variant: an enum never exposes the
    unknown names of a variant's own list to an enclosing receiver -/
theorem enum_variant_scoped (e : SEnum ν) (hc : VariantsClean e) (nested : Meta) (v : SVariant ν)
    (harm : e.arm nested.path'.toStr = some v) (E : Err)
    (h : enumFromList e [.item nested] = .err E) : direct E = [] := by
  simp only [enumFromList, harm] at h
  exact dataArm_spanned_located v (hc v (List.mem_of_find?_eq_some harm)) nested E h

theorem finishStruct_loc (s : SStruct ν) (hpost : ∀ x, ∃ w, s.post x = .ok w) (l : String) (st : PState ν) (E : Err)
    (h : finishStruct s true (some l) st = .err E) :
    ∃ E0, finishStruct s true none st = .err E0 ∧ E = E0.at l := by
  simp only [finishStruct, if_true] at h ⊢
  cases hfi : flattenInit s st with
  | error m => rw [hfi] at h; cases h
  | ok st1 =>
      rw [hfi] at h
      simp only at h ⊢
      cases herrs : (checkMissing s.fields st1).errs with
      | cons e es =>
          rw [herrs] at h
          simp only at h ⊢
          cases hb : (Err.bundleErr (e :: es) : Outcome ν) with
          | ok v => exact absurd hb (bundleErr_not_ok _ v)
          | err e' =>
              rw [hb] at h
              simp only [Outcome.mapErr, Outcome.err.injEq] at h
              exact ⟨e', rfl, h.symm⟩
          | panic m => rw [hb] at h; cases h
      | nil =>
          rw [herrs] at h
          simp only at h
          cases hi : initFields s (checkMissing s.fields st1) s.fields with
          | ok kvs =>
              rw [hi] at h
              obtain ⟨w, hw⟩ := hpost (s.build kvs)
              simp only [hw] at h
              cases h
          | err e => exact absurd hi (initFields_not_err _ _ _ e)
          | panic m => rw [hi] at h; cases h

/-- **inside a struct variant**: the variant's own list is parsed by the variant's fields as a
    struct receiver (to which the chain theorems apply), and everything reported is located at
    the variant's name -/
theorem variant_inside (v : SVariant ν) (s : SStruct ν) (hk : v.kind = .struct s)
    (hpost : ∀ x, ∃ w, s.post x = .ok w)
    (p : Path) (items : List NestedMeta) (ts : Option Span) (t : String) (sp : Span) (E : Err)
    (h : dataArm v (.list p items none ts t sp) = .err E) :
    ∃ E0, fromList s items = .err E0 ∧ E = E0.at v.name := by
  unfold dataArm at h
  rw [hk] at h
  simp only at h
  unfold fromList
  cases hc : coreLoop s {} items with
  | error m => rw [hc] at h; cases h
  | ok st =>
      rw [hc] at h
      exact finishStruct_loc s hpost v.name st E h

/-! ## Part 7 — flatten chains of any depth -/

/-- a flatten chain: a struct receiver without flatten member, an enum receiver, or a struct
    receiver whose flatten member is again a chain; one similarity measure, one threshold -/
inductive Chain (thr : Nat) (score : String → String → Nat) :
    (List NestedMeta → Outcome ν) → (String → Bool) → Prop
  | closed (r : SStruct ν) : r.thr = thr → r.score = score → r.hasFlatten = false → PostClean r →
      Chain thr score (fromList r) (accepts r)
  | enum (e : SEnum ν) : e.thr = thr → e.score = score → VariantsClean e →
      Chain thr score (enumFromList e) (acceptsV e)
  | link (r : SStruct ν) (ff : SField ν) (acc : String → Bool) : r.thr = thr → r.score = score →
      r.fields.find? (·.flatten) = some ff → PostClean r → Chain thr score ff.fromList acc →
      Chain thr score (fromList r) (fun a => accepts r a || acc a)

/-- **C17 for flatten chains of any depth**: the accepted names are those of all levels, and the
    suggestion is the best among all of them -/
theorem chain_sound_partial (thr : Nat) (score : String → String → Nat) (f : List NestedMeta → Outcome ν)
    (acc : String → Bool) (h : Chain thr score f acc) : Sound thr score acc f := by
  induction h with
  | closed r h1 h2 hnf hp => subst h1; subst h2; exact closed_sound_partial r hnf hp
  | enum e h1 h2 hc => subst h1; subst h2; exact enum_sound e hc
  | link r ff acc h1 h2 hff hp _ ih => subst h1; subst h2; exact flatten_sound_partial r ff hff hp acc ih

/-- a chain of struct receivers whose innermost one rejects unknown names -/
inductive StructChain : (List NestedMeta → Outcome ν) → (String → Bool) → Prop
  | closed (r : SStruct ν) : r.hasFlatten = false → r.allowUnknown = false → PostClean r →
      StructChain (fromList r) (accepts r)
  | link (r : SStruct ν) (ff : SField ν) (acc : String → Bool) :
      r.fields.find? (·.flatten) = some ff → PostClean r → StructChain ff.fromList acc →
      StructChain (fromList r) (fun a => accepts r a || acc a)

theorem chain_complete_partial (f : List NestedMeta → Outcome ν) (acc : String → Bool) (h : StructChain f acc) :
    Complete acc f := by
  induction h with
  | closed r hnf hna hp => exact closed_complete_partial r hnf hna hp
  | link r ff acc hff hp _ ih => exact flatten_complete_partial r ff hff hp acc ih

/-- the property's depth-3 chain, spelled out -/
theorem chain3_sound_partial (r0 r1 r2 : SStruct ν) (f0 f1 : SField ν)
    (h0 : r0.fields.find? (·.flatten) = some f0) (h01 : f0.fromList = fromList r1)
    (h1 : r1.fields.find? (·.flatten) = some f1) (h12 : f1.fromList = fromList r2)
    (h2 : r2.hasFlatten = false)
    (ht1 : r1.thr = r0.thr) (ht2 : r2.thr = r0.thr) (hs1 : r1.score = r0.score) (hs2 : r2.score = r0.score)
    (hp0 : PostClean r0) (hp1 : PostClean r1) (hp2 : PostClean r2) :
    Sound r0.thr r0.score (fun a => accepts r0 a || (accepts r1 a || accepts r2 a)) (fromList r0) := by
  apply chain_sound_partial
  refine .link r0 f0 _ rfl rfl h0 hp0 ?_
  rw [h01]
  refine .link r1 f1 _ ht1 hs1 h1 hp1 ?_
  rw [h12]
  exact .closed r2 ht2 hs2 h2 hp2

/-! ## Part 8 — the `suggestions` feature disabled: the same errors, no suggestion -/

/-- an unknown-name error without its suggestion; every other kind as it is -/
def Kind.plain : Kind → Kind
  | .unknownField n _ => .unknownField n none
  | k => k

mutual
/-- the same error tree with every suggestion removed (at every depth) -/
def eraseAll : Err → Err
  | .leaf k ls sp => .leaf (Kind.plain k) ls sp
  | .multi cs ls sp => .multi (eraseAllL cs) ls sp
def eraseAllL : List Err → List Err
  | [] => []
  | c :: cs => eraseAll c :: eraseAllL cs
end

/-- a member of the receiver built without the feature: the same declaration; the external
    functions (nested receivers, user functions) answer the same, without suggestions -/
structure OffField (f f' : SField ν) : Prop where
  ident : f'.ident = f.ident
  name : f'.name = f.name
  fromNone : f'.fromNone = f.fromNone
  dflt : f'.dflt = f.dflt
  skip : f'.skip = f.skip
  multiple : f'.multiple = f.multiple
  flatten : f'.flatten = f.flatten
  conv : ∀ m, f'.conv m = (f.conv m).mapErr eraseAll
  fromList : ∀ items, f'.fromList items = (f.fromList items).mapErr eraseAll

/-- the receiver built without the feature: no name is ever similar enough -/
structure OffStruct (r r' : SStruct ν) : Prop where
  fields : Pointwise OffField r.fields r'.fields
  allowUnknown : r'.allowUnknown = r.allowUnknown
  containerDefault : r'.containerDefault = r.containerDefault
  build : r'.build = r.build
  mkList : r'.mkList = r.mkList
  post : ∀ v, r'.post v = (r.post v).mapErr eraseAll
  quiet : ∀ n a, r'.score n a ≤ r'.thr

@[simp] theorem eraseAllL_nil : eraseAllL [] = [] := by simp [eraseAllL]
@[simp] theorem eraseAllL_cons (c : Err) (cs : List Err) : eraseAllL (c :: cs) = eraseAll c :: eraseAllL cs := by
  simp [eraseAllL]
theorem eraseAllL_append (a b : List Err) : eraseAllL (a ++ b) = eraseAllL a ++ eraseAllL b := by
  induction a with
  | nil => simp
  | cons x xs ih => simp [ih]
theorem eraseAllL_eq_nil (a : List Err) : eraseAllL a = [] ↔ a = [] := by
  cases a <;> simp

theorem eraseAll_at (e : Err) (l : String) : eraseAll (e.at l) = (eraseAll e).at l := by
  cases e <;> simp [Err.at, eraseAll]
theorem eraseAll_withSpan (e : Err) (s : Span) : eraseAll (e.withSpan s) = (eraseAll e).withSpan s := by
  cases e with
  | leaf k ls sp => cases sp <;> simp [Err.withSpan, eraseAll]
  | multi cs ls sp => cases sp <;> simp [Err.withSpan, eraseAll]
theorem eraseAll_new (k : Kind) : eraseAll (Err.new k) = Err.new (Kind.plain k) := by
  simp [Err.new, eraseAll]

mutual
theorem eraseAll_sibling (thr : Nat) (sc : String → List (String × Nat)) (e : Err) :
    eraseAll (addSiblingAlts thr sc e) = eraseAll e := by
  cases e with
  | leaf k ls sp =>
      cases ls with
      | nil => cases k <;> simp [addSiblingAlts, eraseAll, Kind.plain]
      | cons l ls => simp [addSiblingAlts]
  | multi cs ls sp =>
      cases ls with
      | nil => simp [addSiblingAlts, eraseAll, eraseAllL_sibling thr sc cs]
      | cons l ls => simp [addSiblingAlts]
theorem eraseAllL_sibling (thr : Nat) (sc : String → List (String × Nat)) (es : List Err) :
    eraseAllL (addSiblingAltsList thr sc es) = eraseAllL es := by
  cases es with
  | nil => simp [addSiblingAltsList]
  | cons c cs => simp [addSiblingAltsList, eraseAll_sibling thr sc c, eraseAllL_sibling thr sc cs]
end

mutual
/-- without similar names the enclosing receiver changes nothing at all -/
theorem sibling_quiet (thr : Nat) (sc : String → List (String × Nat))
    (hq : ∀ n, didYouMean thr (sc n) = none) (e : Err) : addSiblingAlts thr sc e = e := by
  cases e with
  | leaf k ls sp =>
      cases ls with
      | nil => cases k <;> simp [addSiblingAlts, addAlts, hq]
      | cons l ls => simp [addSiblingAlts]
  | multi cs ls sp =>
      cases ls with
      | nil => simp [addSiblingAlts, siblingL_quiet thr sc hq cs]
      | cons l ls => simp [addSiblingAlts]
theorem siblingL_quiet (thr : Nat) (sc : String → List (String × Nat))
    (hq : ∀ n, didYouMean thr (sc n) = none) (es : List Err) : addSiblingAltsList thr sc es = es := by
  cases es with
  | nil => simp [addSiblingAltsList]
  | cons c cs => simp [addSiblingAltsList, sibling_quiet thr sc hq c, siblingL_quiet thr sc hq cs]
end

theorem quiet_dym (r' : SStruct ν) (hq : ∀ n a, r'.score n a ≤ r'.thr) (L : List String) (n : String) :
    didYouMean r'.thr (L.map (fun a => (a, r'.score n a))) = none := by
  rw [didYouMean_none_iff]
  intro b sb hb
  obtain ⟨a, _, heq⟩ := List.mem_map.mp hb
  simp only [Prod.mk.injEq] at heq
  obtain ⟨_, rfl⟩ := heq
  exact hq n a

/-! ### related member lists -/

theorem pointwise_find {α β : Type} (R : α → β → Prop) (p : α → Bool) (q : β → Bool)
    (hpq : ∀ a b, R a b → p a = q b) (l : List α) (l' : List β) (h : Pointwise R l l') :
    (l.find? p = none ∧ l'.find? q = none) ∨ ∃ a b, l.find? p = some a ∧ l'.find? q = some b ∧ R a b := by
  induction h with
  | nil => exact Or.inl ⟨rfl, rfl⟩
  | @cons a b as bs hab _ ih =>
      cases hp : p a with
      | true =>
          have hq : q b = true := by rw [← hpq a b hab, hp]
          exact Or.inr ⟨a, b, by simp [List.find?, hp], by simp [List.find?, hq], hab⟩
      | false =>
          have hq : q b = false := by rw [← hpq a b hab, hp]
          simpa [List.find?, hp, hq] using ih

theorem pointwise_filterMap {α β γ : Type} (R : α → β → Prop) (p : α → Option γ) (q : β → Option γ)
    (hpq : ∀ a b, R a b → p a = q b) (l : List α) (l' : List β) (h : Pointwise R l l') :
    l.filterMap p = l'.filterMap q := by
  induction h with
  | nil => rfl
  | @cons a b as bs hab _ ih => simp [List.filterMap_cons, hpq a b hab, ih]

theorem pointwise_any {α β : Type} (R : α → β → Prop) (p : α → Bool) (q : β → Bool)
    (hpq : ∀ a b, R a b → p a = q b) (l : List α) (l' : List β) (h : Pointwise R l l') :
    l.any p = l'.any q := by
  induction h with
  | nil => rfl
  | @cons a b as bs hab _ ih => simp [hpq a b hab, ih]

theorem off_names (r r' : SStruct ν) (h : OffStruct r r') : r'.names = r.names := by
  unfold SStruct.names
  symm
  apply pointwise_filterMap OffField _ _ _ _ _ h.fields
  intro a b hab
  simp [SField.asName, hab.skip, hab.flatten, hab.name]

theorem off_hasFlatten (r r' : SStruct ν) (h : OffStruct r r') : r'.hasFlatten = r.hasFlatten := by
  unfold SStruct.hasFlatten
  symm
  apply pointwise_any OffField _ _ _ _ _ h.fields
  intro a b hab
  simp [hab.flatten]

theorem off_arm (r r' : SStruct ν) (h : OffStruct r r') (n : String) :
    (r.arm n = none ∧ r'.arm n = none) ∨ ∃ f f', r.arm n = some f ∧ r'.arm n = some f' ∧ OffField f f' := by
  unfold SStruct.arm
  apply pointwise_find OffField _ _ _ _ _ h.fields
  intro a b hab
  simp [hab.skip, hab.flatten, hab.name]

theorem off_findFlatten (r r' : SStruct ν) (h : OffStruct r r') :
    (r.fields.find? (·.flatten) = none ∧ r'.fields.find? (·.flatten) = none) ∨
    ∃ f f', r.fields.find? (·.flatten) = some f ∧ r'.fields.find? (·.flatten) = some f' ∧ OffField f f' := by
  apply pointwise_find OffField _ _ _ _ _ h.fields
  intro a b hab
  simp [hab.flatten]

/-- the run state of the feature-less build: the same, with the suggestions gone -/
def offSt (st : PState ν) : PState ν := { st with errs := eraseAllL st.errs }

theorem off_unknownErr (r r' : SStruct ν) (h : OffStruct r r') (n : String) :
    r'.unknownErr n = eraseAll (r.unknownErr n) := by
  simp [SStruct.unknownErr, eraseAll_new, Kind.plain, quiet_dym r' h.quiet]

theorem stepItem_off (r r' : SStruct ν) (h : OffStruct r r') (st : PState ν) (it : NestedMeta) :
    stepItem r' (offSt st) it = (stepItem r st it).map offSt := by
  cases it with
  | lit l =>
      simp [stepItem, offSt, PState.push, Except.map, eraseAllL_append, Err.unsupportedFormat,
        eraseAll_withSpan, eraseAll_new, Kind.plain]
  | item inner =>
      rcases off_arm r r' h inner.path'.toStr with ⟨h1, h2⟩ | ⟨f, f', h1, h2, hf⟩
      · simp only [stepItem, h1, h2, off_hasFlatten r r' h, h.allowUnknown, off_unknownErr r r' h]
        cases r.hasFlatten <;> cases r.allowUnknown <;>
          simp [offSt, PState.push, Except.map, eraseAllL_append, eraseAll_withSpan]
      · simp only [stepItem, h1, h2, hf.ident, hf.name, hf.multiple, hf.conv]
        have hslot : (offSt st).slot = st.slot := rfl
        rw [hslot]
        cases f.multiple with
        | true =>
            cases f.conv inner <;>
              simp [offSt, PState.push, PState.set, Except.map, Outcome.mapErr, eraseAllL_append,
                eraseAll_withSpan, eraseAll_at]
        | false =>
            cases (st.slot f.ident).seen with
            | false =>
                cases f.conv inner <;>
                  simp [offSt, PState.push, PState.set, Except.map, Outcome.mapErr, eraseAllL_append,
                    eraseAll_withSpan, eraseAll_at]
            | true =>
                simp [offSt, PState.push, Except.map, eraseAllL_append, eraseAll_withSpan, eraseAll_new,
                  Kind.plain]

theorem coreLoop_off (r r' : SStruct ν) (h : OffStruct r r') (items : List NestedMeta) (st : PState ν) :
    coreLoop r' (offSt st) items = (coreLoop r st items).map offSt := by
  induction items generalizing st with
  | nil => simp [coreLoop, Except.map]
  | cons it rest ih =>
      simp only [coreLoop, stepItem_off r r' h]
      cases stepItem r st it with
      | error m => simp [Except.map]
      | ok st1 => simp only [Except.map]; exact ih st1

theorem off_parentQuiet (r r' : SStruct ν) (h : OffStruct r r') (n : String) :
    didYouMean r'.thr (r'.names.map (fun a => (a, r'.score n a))) = none :=
  quiet_dym r' h.quiet _ n

theorem flattenInit_off (r r' : SStruct ν) (h : OffStruct r r') (st : PState ν) :
    flattenInit r' (offSt st) = (flattenInit r st).map offSt := by
  unfold flattenInit
  rcases off_findFlatten r r' h with ⟨h1, h2⟩ | ⟨f, f', h1, h2, hf⟩
  · simp [h1, h2, Except.map]
  · simp only [h1, h2, lift_result, hf.ident, hf.fromList]
    have hflat : (offSt st).flat = st.flat := rfl
    rw [hflat]
    have hl' : ∀ e, lifted r' e = e := by
      intro e
      unfold lifted
      split
      · rfl
      · exact sibling_quiet _ _ (fun n => off_parentQuiet r r' h n) e
    cases f.fromList st.flat with
    | ok v => simp [Outcome.mapErr, Except.map, offSt, PState.set]
    | err e =>
        have he : eraseAll (lifted r e) = eraseAll e := by
          unfold lifted
          split
          · rfl
          · exact eraseAll_sibling _ _ e
        simp [Outcome.mapErr, Except.map, offSt, PState.set, PState.push, eraseAllL_append, hl', he]
    | panic m => simp [Outcome.mapErr, Except.map]

theorem checkMissing_off (fs fs' : List (SField ν)) (h : Pointwise OffField fs fs') (st : PState ν) :
    checkMissing fs' (offSt st) = offSt (checkMissing fs st) := by
  induction h generalizing st with
  | nil => simp [checkMissing]
  | @cons f f' fs fs' hf _ ih =>
      simp only [checkMissing, hf.multiple, hf.dflt, hf.ident, hf.fromNone, hf.name]
      have hslot : (offSt st).slot = st.slot := rfl
      rw [hslot]
      cases hc : (!f.multiple && f.dflt.isNone) with
      | false => simp only [Bool.false_eq_true, if_false]; exact ih st
      | true =>
          simp only [if_true]
          cases hs : (st.slot f.ident).seen with
          | true => simp only [Bool.not_true, Bool.false_eq_true, if_false]; exact ih st
          | false =>
              simp only [Bool.not_false, if_true]
              cases f.fromNone with
              | some v => exact ih (st.set f.ident { val := some v, many := (st.slot f.ident).many, occ := (st.slot f.ident).occ })
              | none =>
                  have : (offSt st).push (Err.new (.missingField f.name))
                      = offSt (st.push (Err.new (.missingField f.name))) := by
                    simp [offSt, PState.push, eraseAllL_append, eraseAll_new, Kind.plain]
                  rw [this]
                  exact ih _

theorem initFields_off (r r' : SStruct ν) (h : OffStruct r r') (st : PState ν)
    (fs fs' : List (SField ν)) (hfs : Pointwise OffField fs fs') :
    initFields r' (offSt st) fs' = initFields r st fs := by
  induction hfs with
  | nil => simp [initFields]
  | @cons f f' fs fs' hf _ ih =>
      have hi : initField r' (offSt st) f' = initField r st f := by
        have hslot : (offSt st).slot = st.slot := rfl
        simp only [initField, hslot, hf.ident, hf.multiple, hf.dflt, h.mkList, defaultValue, h.containerDefault]
      simp only [initFields, hi, ih, hf.ident]

theorem multiple_off (errs : List Err) :
    Err.multiple (eraseAllL errs) = (match Err.multiple errs with
      | .ok e => .ok (eraseAll e) | .err e => .err (eraseAll e) | .panic m => .panic m) := by
  match errs with
  | [] => simp [Err.multiple]
  | [e] => simp [Err.multiple]
  | e1 :: e2 :: rest => simp [Err.multiple, eraseAll]

theorem bundleErr_off (errs : List Err) :
    (Err.bundleErr (eraseAllL errs) : Outcome ν) = (Err.bundleErr errs).mapErr eraseAll := by
  unfold Err.bundleErr
  rw [multiple_off]
  cases Err.multiple errs <;> simp [Outcome.mapErr]

theorem mapErr_comp_at (o : Outcome ν) (l : String) :
    (o.mapErr eraseAll).mapErr (·.at l) = (o.mapErr (·.at l)).mapErr eraseAll := by
  cases o <;> simp [Outcome.mapErr, eraseAll_at]

theorem finishStruct_off (r r' : SStruct ν) (h : OffStruct r r') (fl : Bool) (loc : Option String) (st : PState ν) :
    finishStruct r' fl loc (offSt st) = (finishStruct r fl loc st).mapErr eraseAll := by
  unfold finishStruct
  have h1 : (if fl = true then flattenInit r' (offSt st) else Except.ok (offSt st))
      = (if fl = true then flattenInit r st else Except.ok st).map offSt := by
    cases fl
    · simp [Except.map]
    · simp [flattenInit_off r r' h]
  simp only [h1]
  cases (if fl = true then flattenInit r st else Except.ok st) with
  | error m => simp [Except.map, Outcome.mapErr]
  | ok st1 =>
      simp only [Except.map, checkMissing_off _ _ h.fields]
      have herrs : (offSt (checkMissing r.fields st1)).errs = eraseAllL (checkMissing r.fields st1).errs := rfl
      rw [herrs]
      cases hc : (checkMissing r.fields st1).errs with
      | cons e es =>
          have hb := bundleErr_off (ν := ν) (e :: es)
          simp only [eraseAllL_cons] at hb ⊢
          rw [hb]
          cases loc with
          | none => rfl
          | some l => exact mapErr_comp_at _ l
      | nil =>
          simp only [eraseAllL_nil, initFields_off r r' h _ _ _ h.fields, h.build, h.post]
          cases hi : initFields r (checkMissing r.fields st1) r.fields with
          | ok kvs => rfl
          | err e => exact absurd hi (initFields_not_err _ _ _ e)
          | panic m => rfl

theorem offSt_init : offSt ({} : PState ν) = {} := by simp [offSt]

/-- **feature off, struct receivers**: the receiver built without `suggestions` (whose nested
    receivers and user functions are built without it as well) returns the same value, or the
    same error tree with every suggestion removed, or panics alike -/
theorem fromList_off (r r' : SStruct ν) (h : OffStruct r r') (items : List NestedMeta) :
    fromList r' items = (fromList r items).mapErr eraseAll := by
  unfold fromList
  have hc := coreLoop_off r r' h items {}
  rw [offSt_init] at hc
  rw [hc]
  cases coreLoop r {} items with
  | error m => simp [Except.map, Outcome.mapErr]
  | ok st => simp only [Except.map]; exact finishStruct_off r r' h true none st

/-! ### enum receivers -/

inductive OffKind : VKind ν → VKind ν → Prop
  | unit (v : ν) : OffKind (.unit v) (.unit v)
  | newtype (fm fm' : Meta → Outcome ν) (fn : Option ν) (w : ν → ν) :
      (∀ m, fm' m = (fm m).mapErr eraseAll) → OffKind (.newtype fm fn w) (.newtype fm' fn w)
  | struct (s s' : SStruct ν) : OffStruct s s' → OffKind (.struct s) (.struct s')

structure OffVariant (v v' : SVariant ν) : Prop where
  name : v'.name = v.name
  skip : v'.skip = v.skip
  kind : OffKind v.kind v'.kind

structure OffEnum (e e' : SEnum ν) : Prop where
  variants : Pointwise OffVariant e.variants e'.variants
  quiet : ∀ n a, e'.score n a ≤ e'.thr

theorem dataArm_off (v v' : SVariant ν) (h : OffVariant v v') (nested : Meta) :
    dataArm v' nested = (dataArm v nested).mapErr eraseAll := by
  obtain ⟨name, skip, kind⟩ := v
  obtain ⟨name', skip', kind'⟩ := v'
  obtain ⟨hn, _, hk⟩ := h
  simp only at hn hk
  subst hn
  unfold dataArm
  cases hk with
  | unit x =>
      cases nested <;> simp [Outcome.mapErr, Err.unsupportedFormat, eraseAll_new, Kind.plain]
  | newtype fm fm' fn w hfm =>
      simp only [hfm]
      cases fm nested <;> simp [Outcome.mapErr, Outcome.map, eraseAll_at]
  | struct s s' hs =>
      cases nested with
      | path p => simp [Outcome.mapErr, Err.unsupportedFormat, eraseAll_new, Kind.plain]
      | nameValue p e t sp => simp [Outcome.mapErr, Err.unsupportedFormat, eraseAll_new, Kind.plain]
      | list p items bad ts t sp =>
          cases bad with
          | some b => simp [Outcome.mapErr, eraseAll, eraseAll_at, Kind.plain]
          | none =>
              simp only
              have hc := coreLoop_off s s' hs items {}
              rw [offSt_init] at hc
              rw [hc]
              cases coreLoop s {} items with
              | error m => simp [Except.map, Outcome.mapErr]
              | ok st => simp only [Except.map]; exact finishStruct_off s s' hs true (some name') st

theorem off_armV (e e' : SEnum ν) (h : OffEnum e e') (n : String) :
    (e.arm n = none ∧ e'.arm n = none) ∨ ∃ v v', e.arm n = some v ∧ e'.arm n = some v' ∧ OffVariant v v' := by
  unfold SEnum.arm
  apply pointwise_find OffVariant _ _ _ _ _ h.variants
  intro a b hab
  simp [hab.skip, hab.name]

theorem off_unknownErrV (e e' : SEnum ν) (h : OffEnum e e') (n : String) :
    e'.unknownErr n = eraseAll (e.unknownErr n) := by
  have hq : didYouMean e'.thr (e'.names.map (fun a => (a, e'.score n a))) = none := by
    rw [didYouMean_none_iff]
    intro b sb hb
    obtain ⟨a, _, heq⟩ := List.mem_map.mp hb
    simp only [Prod.mk.injEq] at heq
    obtain ⟨_, rfl⟩ := heq
    exact h.quiet n a
  unfold SEnum.unknownErr
  rw [hq]
  split <;> split <;> simp [eraseAll_new, Kind.plain]

/-- **feature off, enum receivers** -/
theorem enumFromList_off (e e' : SEnum ν) (h : OffEnum e e') (outer : List NestedMeta) :
    enumFromList e' outer = (enumFromList e outer).mapErr eraseAll := by
  unfold enumFromList
  split
  · simp [Outcome.mapErr, eraseAll_new, Kind.plain]
  · rename_i nested
    simp only
    rcases off_armV e e' h nested.path'.toStr with ⟨h1, h2⟩ | ⟨v, v', h1, h2, hv⟩
    · simp [h1, h2, Outcome.mapErr, off_unknownErrV e e' h, eraseAll_withSpan]
    · simp only [h1, h2]
      rw [dataArm_off v v' hv nested]
      cases dataArm v nested with
      | ok x => rfl
      | panic m => rfl
      | err E => simp only [Outcome.mapErr, eraseAll_withSpan]
  · simp [Outcome.mapErr, Err.unsupportedFormat, eraseAll_new, Kind.plain]
  · simp [Outcome.mapErr, eraseAll_new, Kind.plain]

mutual
theorem eraseAll_idem (e : Err) : eraseAll (eraseAll e) = eraseAll e := by
  cases e with
  | leaf k ls sp => cases k <;> simp [eraseAll, Kind.plain]
  | multi cs ls sp => simp [eraseAll, eraseAllL_idem cs]
theorem eraseAllL_idem (es : List Err) : eraseAllL (eraseAllL es) = eraseAllL es := by
  cases es with
  | nil => simp
  | cons c cs => simp [eraseAll_idem c, eraseAllL_idem cs]
end

mutual
/-- no error of the tree carries a suggestion -/
def noSuggestion : Err → Prop
  | .leaf k _ _ => ∀ n d, k = .unknownField n d → d = none
  | .multi cs _ _ => noSuggestionL cs
def noSuggestionL : List Err → Prop
  | [] => True
  | c :: cs => noSuggestion c ∧ noSuggestionL cs
end

mutual
theorem noSuggestion_eraseAll (e : Err) : noSuggestion (eraseAll e) := by
  cases e with
  | leaf k ls sp =>
      cases k <;> simp [eraseAll, Kind.plain, noSuggestion]
  | multi cs ls sp => simp only [eraseAll, noSuggestion]; exact noSuggestionL_eraseAll cs
theorem noSuggestionL_eraseAll (es : List Err) : noSuggestionL (eraseAllL es) := by
  cases es with
  | nil => simp [noSuggestionL]
  | cons c cs => simp only [eraseAllL_cons, noSuggestionL]; exact ⟨noSuggestion_eraseAll c, noSuggestionL_eraseAll cs⟩
end

/-- … in particular the feature-less build reports no suggestion anywhere -/
theorem fromList_off_noSuggestion (r r' : SStruct ν) (h : OffStruct r r') (items : List NestedMeta) (E : Err)
    (he : fromList r' items = .err E) : noSuggestion E := by
  rw [fromList_off r r' h] at he
  cases hr : fromList r items with
  | ok v => rw [hr] at he; cases he
  | err e => rw [hr] at he; simp only [Outcome.mapErr, Outcome.err.injEq] at he; subst he; exact noSuggestion_eraseAll e
  | panic m => rw [hr] at he; cases he

/-- **a suggestion is attached only to an unknown-name error**: removing the suggestions touches
    no other kind of error -/
theorem plain_changes_only_unknown (k : Kind) (h : Kind.plain k ≠ k) : ∃ n d, k = .unknownField n d := by
  cases k <;> first | exact absurd rfl h | exact ⟨_, _, rfl⟩

/-! ## Part 9 — non-vacuity: a concrete depth-3 chain, an enum, and every hypothesis -/

namespace Ex

def word (name : String) (lo hi : Nat) : NestedMeta :=
  .item (.path { global := false, segs := [name], plain := true, toks := name, span := ⟨lo, hi⟩ })

def fld (name : String) : SField Nat :=
  { ident := name, name := name, conv := fun _ => .ok 1, fromNone := none, fromList := fun _ => .panic "no list",
    dflt := some (.value 0), skip := false, multiple := false, flatten := false }

/-- similarity table of the example (every other pair: 0); threshold 80 -/
def sim (n a : String) : Nat :=
  if n == "alpah" && a == "alpha" then 95
  else if n == "alpah" && a == "beta" then 85
  else if n == "gama" && a == "gamma" then 90
  else if n == "omeg" && a == "omega" then 99
  else if n == "bet" && a == "beta" then 88
  else if n == "bet" && a == "alpha" then 60
  else 0

def mk (fields : List (SField Nat)) (allowUnknown : Bool := false) : SStruct Nat :=
  { fields := fields, allowUnknown := allowUnknown, containerDefault := none, build := fun _ => 7, mkList := fun _ => 0,
    post := .ok, score := sim, thr := 80 }

/-- innermost: `struct Inner { gamma }` -/
def r2 : SStruct Nat := mk [fld "gamma"]
/-- `struct Mid { beta, #[darling(flatten)] i: Inner }` -/
def r1 : SStruct Nat := mk [fld "beta", { fld "i" with flatten := true, fromList := fromList r2 }]
/-- `struct Outer { alpha, #[darling(skip)] omega, #[darling(flatten)] m: Mid }` -/
def r0 : SStruct Nat :=
  mk [fld "alpha", { fld "omega" with skip := true }, { fld "m" with flatten := true, fromList := fromList r1 }]

def out (o : Outcome Nat) : List Unk := match o with | .err E => direct E | _ => []

/-- three levels: the outer name wins for `alpah` although the middle level offers `beta` (85) -/
example : out (fromList r0 [word "alpah" 0 5, word "gama" 6 10, word "omeg" 11 15, word "bet" 16 19])
    = [("alpah", some (95, "alpha"), some ⟨0, 5⟩), ("gama", some (90, "gamma"), some ⟨6, 10⟩),
       ("omeg", none, some ⟨11, 15⟩), ("bet", some (88, "beta"), some ⟨16, 19⟩)] := by rfl

theorem post_ok (fields : List (SField Nat)) (a : Bool) : PostClean (mk fields a) := by
  intro v E h; simp [mk] at h

theorem chain : Chain 80 sim (fromList r0) (fun a => accepts r0 a || (accepts r1 a || accepts r2 a)) :=
  .link r0 _ _ rfl rfl rfl (post_ok _ _) (.link r1 _ _ rfl rfl rfl (post_ok _ _) (.closed r2 rfl rfl rfl (post_ok _ _)))

theorem structChain : StructChain (fromList r0) (fun a => accepts r0 a || (accepts r1 a || accepts r2 a)) :=
  .link r0 _ _ rfl (post_ok _ _) (.link r1 _ _ rfl (post_ok _ _) (.closed r2 rfl rfl (post_ok _ _)))

/-- hypotheses of `closed_sound_partial` / `closed_complete_partial` -/
example : r2.hasFlatten = false ∧ r2.allowUnknown = false ∧ PostClean r2 := ⟨rfl, rfl, post_ok _ _⟩
/-- hypotheses of `flatten_sound_partial` / `flatten_complete_partial` / `flatten_report_partial` -/
example : ∃ ff, r1.fields.find? (·.flatten) = some ff ∧ PostClean r1 ∧ Sound r1.thr r1.score (accepts r2) ff.fromList ∧
    Complete (accepts r2) ff.fromList :=
  ⟨_, rfl, post_ok _ _, closed_sound_partial r2 rfl (post_ok _ _), closed_complete_partial r2 rfl rfl (post_ok _ _)⟩
example : ∃ Em, fromList r2 ((rejected (accepts r1) [word "gama" 6 10]).map NestedMeta.item) = .err Em ∧
    ∃ E, fromList r1 [word "gama" 6 10] = .err E := ⟨_, rfl, _, rfl⟩
/-- hypotheses of `chain3_sound_partial` -/
example : Sound r0.thr r0.score (fun a => accepts r0 a || (accepts r1 a || accepts r2 a)) (fromList r0) :=
  chain3_sound_partial r0 r1 r2 _ _ rfl rfl rfl rfl rfl rfl rfl rfl rfl (post_ok _ _) (post_ok _ _) (post_ok _ _)
/-- `Sound` has content: the premise `f items = .err E` with a non-empty `direct E` is met -/
example : ∃ E, fromList r0 [word "alpah" 0 5] = .err E ∧ direct E ≠ [] := ⟨_, rfl, by decide⟩
/-- `Complete` has content in both clauses -/
example : ∃ v, fromList r0 [word "alpha" 0 5] = .ok v := ⟨_, rfl⟩
example : rejected (fun a => accepts r0 a || (accepts r1 a || accepts r2 a)) [word "alpha" 0 5, word "omega" 6 11]
    = [(.path { global := false, segs := ["omega"], plain := true, toks := "omega", span := ⟨6, 11⟩ })] := by rfl
/-- `PostClean` is a real restriction: a post-processing function can manufacture such an error -/
example : ¬ PostClean { mk [] with post := fun _ => .err (Err.new (.unknownField "x" (some (100, "x")))) } := by
  intro h
  have := h 0 _ rfl
  simp [Err.new, direct] at this
/-- `allowUnknown = false` is needed for completeness: an open receiver reports nothing -/
example : ∃ v, fromList (mk [fld "gamma"] true) [word "gama" 0 4] = .ok v := ⟨_, rfl⟩

/-! ### the discrepancy excluded by `PostClean`

  The enclosing receiver decorates *every* unlocated unknown-name error its flatten member
  returns — also one the member's post-processing function (`#[darling(and_then = ..)]`) made up,
  for a name that was never an item of the list: below, the item list is empty, the member's
  `and_then` complains about `alpah`, and the enclosing receiver adds "did you mean `alpha`". -/

def mPost : SStruct Nat := { mk [fld "beta"] with post := fun _ => .err (Err.new (.unknownField "alpah" none)) }
def oPost : SStruct Nat := mk [fld "alpha", { fld "m" with flatten := true, fromList := fromList mPost }]

example : fromList mPost [] = .err (.leaf (.unknownField "alpah" none) [] none) := rfl
example : fromList oPost [] = .err (.leaf (.unknownField "alpah" (some (95, "alpha"))) [] none) := rfl
example : ¬ PostClean mPost := by
  intro h
  have := h 7 _ rfl
  simp [Err.new, direct] at this
/-- … so the soundness statement is false for `oPost` without the side condition on its member -/
example : ¬ Sound 80 sim (fun a => accepts oPost a || accepts mPost a) (fromList oPost) := by
  intro h
  obtain ⟨⟨m, hm, _⟩, _⟩ := h [] (.leaf (.unknownField "alpah" (some (95, "alpha"))) [] none) rfl
    "alpah" (some (95, "alpha")) none (by simp [direct])
  cases hm

/-- an enum receiver: `enum E { Foo, Bar, #[darling(skip)] Baz }` with a struct variant -/
def en : SEnum Nat :=
  { variants := [⟨"foo", false, .struct r2⟩, ⟨"bar", false, .unit 2⟩, ⟨"baz", true, .unit 3⟩],
    score := fun n a => if n == "ba" && a == "bar" then 93 else if n == "ba" && a == "baz" then 94 else 0,
    thr := 80, fromWord := none, fromNone := none }

theorem en_clean : VariantsClean en := by
  intro v hv s hs
  simp only [en, List.mem_cons, List.not_mem_nil, or_false] at hv
  rcases hv with rfl | rfl | rfl
  · simp only [VKind.struct.injEq] at hs; subst hs; exact post_ok _ _
  · cases hs
  · cases hs

/-- the skipped variant `baz` is more similar (94) and is not offered -/
example : out (enumFromList en [word "ba" 0 2]) = [("ba", some (93, "bar"), some ⟨0, 2⟩)] := by rfl
/-- hypothesis of `enum_variant_scoped` -/
example : ∃ v, en.arm "foo" = some v := ⟨_, rfl⟩
/-- hypotheses and content of `variant_inside`: `e(foo(gama))` -/
example : ∀ x, ∃ w, r2.post x = .ok w := fun x => ⟨x, rfl⟩
example : dataArm ⟨"foo", false, .struct r2⟩ (.list default [word "gama" 4 8] none none "" ⟨0, 9⟩)
    = .err (.leaf (.unknownField "gama" (some (90, "gamma"))) ["foo"] (some ⟨4, 8⟩)) := rfl

/-- the feature-less build of `r2` (hypothesis of `fromList_off`) -/
def r2off : SStruct Nat := { r2 with score := fun _ _ => 0 }
theorem offField_refl (f : SField Nat) (hc : ∀ m, f.conv m = (f.conv m).mapErr eraseAll)
    (hl : ∀ items, f.fromList items = (f.fromList items).mapErr eraseAll) : OffField f f :=
  ⟨rfl, rfl, rfl, rfl, rfl, rfl, rfl, hc, hl⟩
theorem r2_off : OffStruct r2 r2off :=
  { fields := .cons (offField_refl _ (fun _ => rfl) (fun _ => rfl)) .nil,
    allowUnknown := rfl, containerDefault := rfl, build := rfl, mkList := rfl,
    post := fun _ => rfl, quiet := fun _ _ => Nat.zero_le _ }
example : fromList r2off [word "gama" 0 4] = .err (.leaf (.unknownField "gama" none) [] (some ⟨0, 4⟩)) := rfl
example : fromList r2 [word "gama" 0 4] = .err (.leaf (.unknownField "gama" (some (90, "gamma"))) [] (some ⟨0, 4⟩)) := rfl
/-- hypothesis of `enumFromList_off` -/
def enoff : SEnum Nat :=
  { variants := [⟨"foo", false, .struct r2off⟩, ⟨"bar", false, .unit 2⟩, ⟨"baz", true, .unit 3⟩],
    score := fun _ _ => 0, thr := 80, fromWord := none, fromNone := none }
example : OffEnum en enoff :=
  { variants := .cons ⟨rfl, rfl, .struct _ _ r2_off⟩ (.cons ⟨rfl, rfl, .unit _⟩ (.cons ⟨rfl, rfl, .unit _⟩ .nil)),
    quiet := fun _ _ => Nat.zero_le _ }

end Ex

end C17
