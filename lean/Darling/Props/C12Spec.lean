import Darling.FromMeta.Universe
import Darling.Props.C12
/-
  C12 — an independent, declarative reading of the property text, and `model ⟺ text`.

  The text is rendered as an inductive relation `Expect I m k t w`:
    "the text allows the outcome `w` for `W<T>::from_meta(m)` when `T::from_meta(m)` is `t`".
  It mentions no hook record and no step function of the model: only the wrapper `k`, the item
  `m`, T's outcome `t` on that same item, and the way wrapped values are written down (`Alg`).
  `ExpectStack` iterates it over a stack of wrappers of any depth (the text's "two-level
  compositions" are the stacks of length 2).

  Main theorems (all for an arbitrary hook record `h` = any implementor of the trait, an arbitrary
  item `m`, an arbitrary stack `ws`, an arbitrary representation `I` of wrapped values):

    * `stack_fromMeta_partial`   model ⊨ text, under the two side conditions `hS`, `hR` that
                                 exclude the two places where the text and the code part
                                 (both concern `SpannedValue` only, see DISCREPANCY 1 and 2);
    * `stack_spec_iff_partial`   … and the text pins the outcome down uniquely, so
                                 `ExpectStack … w ↔ w = model`;
    * `wrap_spanned_iff`         the side conditions are the weakest possible: for one
                                 `SpannedValue` layer the text holds iff they do;
    * `stack_fromMeta_noSpanned` no side condition at all for stacks without `SpannedValue`;
    * `stack_fromMeta_default`   `hS` discharged for every `T` whose `from_meta` is the trait's
                                 default (all thirteen inner targets of the quantifier);
    * `stack_fromNone`           the absent-item clause, no side condition;
    * `hooksOf_stack*`           the same statements about `hooksOf`, the function the model
                                 driver executes.
-/
open Wrappers

namespace C12
variable {β : Type}

/-! ## vocabulary -/

/-- the wrappers of the first two sentences of the property (`ptr` = Box / Rc / Arc / RefCell) -/
inductive W where
  | option | ptr | spanned | withOrig | override | result | resultMeta
  deriving DecidableEq, Repr

/-- how wrapped values are written down; the theorems hold for every such representation
    (`valAlg` below is the one of the model driver; a representation that keeps the whole item in
    `withOrig'` / `errm'` makes "an identical copy of the item" literal) -/
structure Alg (β : Type) where
  some' : β → β
  none' : β
  ptr' : β → β
  okv' : β → β
  errv' : Err → β
  okm' : β → β
  errm' : Meta → β
  inherit' : β
  explicit' : β → β
  spanned' : β → Option Span → β
  withOrig' : β → Meta → β

/-- the bare-word form -/
def isWord : Meta → Bool
  | .path _ => true
  | _ => false

/-- "the value's own source range": a bare word is its own value; the value of `name(…)` is what
    stands between the delimiters; the value of `name = value` is the expression right of `=`.
    There is no clause for a list without contents: nothing in the source is its value. -/
inductive OwnRange : Meta → Span → Prop
  | word (p : Path) : OwnRange (.path p) p.span
  | contents (p : Path) (items : List NestedMeta) (bad : Option (String × Span)) (s : Span)
      (toks : String) (sp : Span) : OwnRange (.list p items bad (some s) toks sp) s
  | value (p : Path) (e : Expr) (toks : String) (sp : Span) : OwnRange (.nameValue p e toks sp) e.span

/-- the pairs (wrapper, item) the first sentence speaks about: Option, the smart pointers,
    SpannedValue, WithOriginal on every item; Override on every item but the bare word -/
def inScope : W → Meta → Bool
  | .result, _ => false
  | .resultMeta, _ => false
  | .override, m => !isWord m
  | _, _ => true

/-! ## the text, clause by clause -/

/-- `Expect I m k t w`: outcome `w` is what the text prescribes for wrapper `k` around `T` on the
    item `m`, `t` being T's outcome on `m`. -/
inductive Expect (I : Alg β) (m : Meta) : W → Outcome β → Outcome β → Prop
  /- "accept exactly the items T accepts, contain exactly the value T produces" -/
  | option_ok (v : β) : Expect I m .option (.ok v) (.ok (I.some' v))
  | ptr_ok (v : β) : Expect I m .ptr (.ok v) (.ok (I.ptr' v))
  /- "… and WithOriginal an identical copy of the item" -/
  | withOrig_ok (v : β) : Expect I m .withOrig (.ok v) (.ok (I.withOrig' v m))
  /- "SpannedValue records the value's own source range" -/
  | spanned_ok (v : β) (s : Span) : OwnRange m s →
      Expect I m .spanned (.ok v) (.ok (I.spanned' v (some s)))
  /- "for every form other than the bare word - Override<T>" -/
  | override_ok (v : β) : isWord m = false → Expect I m .override (.ok v) (.ok (I.explicit' v))
  /- "… and fail with T's error" (the error itself, not a relative of it) -/
  | err (k : W) (e : Err) : inScope k m = true → Expect I m k (.err e) (.err e)
  /- not in the text, from the type's documentation: the bare word means `Inherit`, whatever T
     would have made of it -/
  | override_word (t : Outcome β) : isWord m = true → Expect I m .override t (.ok I.inherit')
  /- "darling's Result<T> … never fail outwardly and hold T's outcome" -/
  | result_ok (v : β) : Expect I m .result (.ok v) (.ok (I.okv' v))
  | result_err (e : Err) : Expect I m .result (.err e) (.ok (I.errv' e))
  /- "Result<T, Meta> … never fail outwardly and hold T's outcome (or the original item)" -/
  | resultMeta_ok (v : β) : Expect I m .resultMeta (.ok v) (.ok (I.okm' v))
  | resultMeta_err (e : Err) : Expect I m .resultMeta (.err e) (.ok (I.errm' m))
  /- not in the text: a wrapper cannot intercept a panic of T's conversion -/
  | panic (k : W) (p : String) : (k = .override → isWord m = false) →
      Expect I m k (.panic p) (.panic p)

/-- a stack of wrappers, outermost first: `[option, ptr]` is `Option<Box<T>>` -/
inductive ExpectStack (I : Alg β) (m : Meta) : List W → Outcome β → Outcome β → Prop
  | nil (t : Outcome β) : ExpectStack I m [] t t
  | cons {k : W} {ws : List W} {t u w : Outcome β} :
      ExpectStack I m ws t u → Expect I m k u w → ExpectStack I m (k :: ws) t w

/-- "When the item is absent Option yields None, … smart pointers and darling's Result whatever T
    yields and the other wrappers stay required" (`none` = required) -/
def expectNone (I : Alg β) : W → Option β → Option β
  | .option, _ => some I.none'
  | .ptr, some v => some (I.ptr' v)
  | .result, some v => some (I.okv' v)
  | _, _ => none

def expectNoneStack (I : Alg β) : List W → Option β → Option β
  | [], t => t
  | k :: ws, t => expectNone I k (expectNoneStack I ws t)

/-! ## the text's own consequences (sanity of the rendering; no model involved) -/

theorem OwnRange.unique {m : Meta} {s s' : Span} (a : OwnRange m s) (b : OwnRange m s') : s = s' := by
  cases a <;> cases b <;> rfl

/-- the text determines the outcome -/
theorem Expect.unique {I : Alg β} {m : Meta} {k : W} {t w w' : Outcome β}
    (a : Expect I m k t w) (b : Expect I m k t w') : w = w' := by
  cases a with
  | spanned_ok v s hs =>
      cases b with
      | spanned_ok _ s' hs' => rw [OwnRange.unique hs hs']
  | override_ok v hw =>
      cases b with
      | override_ok _ _ => rfl
      | override_word _ hw' => rw [hw] at hw'; cases hw'
  | err k e hk =>
      cases b with
      | err _ _ _ => rfl
      | override_word _ hw' => simp only [inScope, hw'] at hk; cases hk
      | result_err _ => cases hk
      | resultMeta_err _ => cases hk
  | override_word t hw =>
      cases b with
      | override_ok _ hw' => rw [hw] at hw'; cases hw'
      | err _ _ hk => simp only [inScope, hw] at hk; cases hk
      | override_word _ _ => rfl
      | panic _ _ hk => rw [hk rfl] at hw; cases hw
  | panic k p hk =>
      cases b with
      | override_word _ hw' => rw [hk rfl] at hw'; cases hw'
      | panic _ _ _ => rfl
  | option_ok v => cases b; rfl
  | ptr_ok v => cases b; rfl
  | withOrig_ok v => cases b; rfl
  | result_ok v => cases b; rfl
  | result_err e =>
      cases b with
      | result_err _ => rfl
      | err _ _ hk => cases hk
  | resultMeta_ok v => cases b; rfl
  | resultMeta_err e =>
      cases b with
      | resultMeta_err _ => rfl
      | err _ _ hk => cases hk

theorem ExpectStack.unique {I : Alg β} {m : Meta} : ∀ {ws : List W} {t w w' : Outcome β},
    ExpectStack I m ws t w → ExpectStack I m ws t w' → w = w'
  | [], _, _, _, a, b => by cases a; cases b; rfl
  | _ :: _, _, _, _, a, b => by
      cases a with
      | cons as ak =>
        cases b with
        | cons bs bk =>
          have := ExpectStack.unique as bs
          subst this
          exact Expect.unique ak bk

/-- "accept exactly the items T accepts" -/
theorem Expect.accepts_iff {I : Alg β} {m : Meta} {k : W} {t w : Outcome β}
    (H : Expect I m k t w) (hk : inScope k m = true) : w.isOk = t.isOk := by
  cases H with
  | override_word t hw => simp only [inScope, hw] at hk; cases hk
  | result_ok _ => cases hk
  | result_err _ => cases hk
  | resultMeta_ok _ => cases hk
  | resultMeta_err _ => cases hk
  | _ => rfl

/-- "fail with T's error" -/
theorem Expect.fails_with {I : Alg β} {m : Meta} {k : W} {t w : Outcome β}
    (H : Expect I m k t w) (hk : inScope k m = true) (e : Err) : w = .err e ↔ t = .err e := by
  cases H with
  | override_word t hw => simp only [inScope, hw] at hk; cases hk
  | result_ok _ => cases hk
  | result_err _ => cases hk
  | resultMeta_ok _ => cases hk
  | resultMeta_err _ => cases hk
  | err _ e' _ => exact Iff.rfl
  | panic _ _ _ => constructor <;> (intro h; cases h)
  | _ => constructor <;> (intro h; cases h)

/-- an error that comes out of a wrapper is the error that went in -/
theorem Expect.err_inv {I : Alg β} {m : Meta} {k : W} {t : Outcome β} {e : Err}
    (H : Expect I m k t (.err e)) : t = .err e := by
  cases H; rfl

theorem ExpectStack.err_inv {I : Alg β} {m : Meta} : ∀ {ws : List W} {t : Outcome β} {e : Err},
    ExpectStack I m ws t (.err e) → t = .err e
  | [], _, _, H => by cases H; rfl
  | _ :: _, _, _, H => by
      cases H with
      | cons hs hk =>
        have := Expect.err_inv hk
        subst this
        exact ExpectStack.err_inv hs

/-- "never fail outwardly" -/
theorem Expect.never_fails {I : Alg β} {m : Meta} {k : W} {t w : Outcome β}
    (H : Expect I m k t w) (hk : k = .result ∨ k = .resultMeta) (e : Err) : w ≠ .err e := by
  intro hw
  subst hw
  cases H with
  | err k e hs => rcases hk with hk | hk <;> (subst hk; cases hs)

/-- "… and hold T's outcome (or the original item)" -/
theorem Expect.result_holds {I : Alg β} {m : Meta} {t w : Outcome β}
    (H : Expect I m .result t w) :
    (∀ v, t = .ok v → w = .ok (I.okv' v)) ∧ (∀ e, t = .err e → w = .ok (I.errv' e)) := by
  cases H with
  | err _ _ hs => cases hs
  | result_ok v => exact ⟨fun _ h => (by cases h; rfl), fun _ h => (by cases h)⟩
  | result_err e => exact ⟨fun _ h => (by cases h), fun _ h => (by cases h; rfl)⟩
  | panic _ _ _ => exact ⟨fun _ h => (by cases h), fun _ h => (by cases h)⟩

theorem Expect.resultMeta_holds {I : Alg β} {m : Meta} {t w : Outcome β}
    (H : Expect I m .resultMeta t w) :
    (∀ v, t = .ok v → w = .ok (I.okm' v)) ∧ (∀ e, t = .err e → w = .ok (I.errm' m)) := by
  cases H with
  | err _ _ hs => cases hs
  | resultMeta_ok v => exact ⟨fun _ h => (by cases h; rfl), fun _ h => (by cases h)⟩
  | resultMeta_err e => exact ⟨fun _ h => (by cases h), fun _ h => (by cases h; rfl)⟩
  | panic _ _ _ => exact ⟨fun _ h => (by cases h), fun _ h => (by cases h)⟩

/-! ## the model side: wrappers assembled exactly as `hooksOf` assembles them -/

def wrapHooks (I : Alg β) : W → Hooks β → Hooks β
  | .option, h => optionOf I.some' I.none' h
  | .ptr, h => ptrOf I.ptr' h
  | .spanned, h => spannedOf I.spanned' h
  | .withOrig, h => withOriginalOf I.withOrig' h
  | .override, h => overrideOf I.explicit' I.inherit' h
  | .result, h => resultOf I.okv' I.errv' h
  | .resultMeta, h => resultMetaOf I.okm' I.errm' h

def stackHooks (I : Alg β) : List W → Hooks β → Hooks β
  | [], h => h
  | k :: ws, h => wrapHooks I k (stackHooks I ws h)

/-! ## helper facts about `Error::with_span` -/

theorem withSpan_span_isSome (e : Err) (s : Span) : (e.withSpan s).span.isSome = true := by
  cases e with
  | leaf k ls sp => cases sp <;> rfl
  | multi cs ls sp => cases sp <;> rfl

theorem withSpan_of_spanned (e : Err) (s : Span) (h : e.span.isSome = true) : e.withSpan s = e := by
  cases e with
  | leaf k ls sp => cases sp with
    | none => cases h
    | some _ => rfl
  | multi cs ls sp => cases sp with
    | none => cases h
    | some _ => rfl

theorem mapErr_withSpan_err {x : Outcome β} {s : Span} {e : Err}
    (h : x.mapErr (·.withSpan s) = .err e) : e.span.isSome = true := by
  cases x with
  | ok a => cases h
  | panic p => cases h
  | err e0 =>
      have : e0.withSpan s = e := by
        simp only [Outcome.mapErr] at h
        exact Outcome.err.inj h
      rw [← this]
      exact withSpan_span_isSome e0 s

/-- an implementor that leaves `from_meta` at the trait's default never returns a span-less error
    from it -/
theorem default_err_spanned (h : Hooks β) (hd : h.fromMeta? = none) (m : Meta) (e : Err)
    (he : h.fromMeta m = .err e) : e.span.isSome = true := by
  simp only [Hooks.fromMeta, hd] at he
  cases m with
  | path p => exact mapErr_withSpan_err he
  | nameValue p x t s => exact mapErr_withSpan_err he
  | list p items bad ts t s =>
      cases bad with
      | some b =>
          obtain ⟨msg, sp⟩ := b
          simp only [Hooks.fromMetaD] at he
          cases he
          rfl
      | none => exact mapErr_withSpan_err he

theorem OwnRange.valueSpan_eq {m : Meta} {s : Span} (h : OwnRange m s) : valueSpan m = some s := by
  cases h <;> rfl

/-! ## model ⊨ text -/

/-- one wrapper around any implementor `h`, any item.  The side conditions concern `SpannedValue`
    only: (`hS`) if T fails, its error carries a span; (`hR`) if T accepts, the item has a value
    range.  See DISCREPANCY 1 / 2 below for what happens without them. -/
theorem wrap_fromMeta_partial (I : Alg β) (k : W) (h : Hooks β) (m : Meta)
    (hS : k = .spanned → ∀ e, h.fromMeta m = .err e → e.span.isSome = true)
    (hR : k = .spanned → ∀ v, h.fromMeta m = .ok v → ∃ s, OwnRange m s) :
    Expect I m k (h.fromMeta m) ((wrapHooks I k h).fromMeta m) := by
  cases k with
  | option =>
      have e := option_transparent I.some' I.none' h m
      simp only [wrapHooks]; rw [e]
      cases h.fromMeta m with
      | ok v => exact .option_ok v
      | err e => exact .err _ e rfl
      | panic p => exact .panic _ p (fun hk => by cases hk)
  | ptr =>
      have e := ptr_transparent I.ptr' h m
      simp only [wrapHooks]; rw [e]
      cases h.fromMeta m with
      | ok v => exact .ptr_ok v
      | err e => exact .err _ e rfl
      | panic p => exact .panic _ p (fun hk => by cases hk)
  | withOrig =>
      have e := withOriginal_transparent I.withOrig' h m
      simp only [wrapHooks]; rw [e]
      cases h.fromMeta m with
      | ok v => exact .withOrig_ok v
      | err e => exact .err _ e rfl
      | panic p => exact .panic _ p (fun hk => by cases hk)
  | spanned =>
      have e := spanned_transparent I.spanned' h m
      simp only [wrapHooks]; rw [e]
      have hS' := hS rfl
      have hR' := hR rfl
      revert hS' hR'
      generalize h.fromMeta m = t
      intro hS' hR'
      cases t with
      | ok v =>
          obtain ⟨s, hs⟩ := hR' v rfl
          simp only [hs.valueSpan_eq]
          exact .spanned_ok v s hs
      | err e =>
          simp only [withSpan_of_spanned e m.span (hS' e rfl)]
          exact .err _ e rfl
      | panic p => exact .panic _ p (fun hk => by cases hk)
  | override =>
      cases m with
      | path p => exact .override_word _ rfl
      | list p items bad ts t s =>
          have e := override_transparent I.explicit' I.inherit' h (.list p items bad ts t s)
            (fun q hq => by cases hq)
          simp only [wrapHooks]; rw [e]
          cases h.fromMeta (.list p items bad ts t s) with
          | ok v => exact .override_ok v rfl
          | err e => exact .err _ e rfl
          | panic p => exact .panic _ p (fun _ => rfl)
      | nameValue p x t s =>
          have e := override_transparent I.explicit' I.inherit' h (.nameValue p x t s)
            (fun q hq => by cases hq)
          simp only [wrapHooks]; rw [e]
          cases h.fromMeta (.nameValue p x t s) with
          | ok v => exact .override_ok v rfl
          | err e => exact .err _ e rfl
          | panic p => exact .panic _ p (fun _ => rfl)
  | result =>
      have e := result_holds_outcome I.okv' I.errv' h m
      simp only [wrapHooks]; rw [e]
      cases h.fromMeta m with
      | ok v => exact .result_ok v
      | err e => exact .result_err e
      | panic p => exact .panic _ p (fun hk => by cases hk)
  | resultMeta =>
      have e := resultMeta_holds I.okm' I.errm' h m
      simp only [wrapHooks]; rw [e]
      cases h.fromMeta m with
      | ok v => exact .resultMeta_ok v
      | err e => exact .resultMeta_err e
      | panic p => exact .panic _ p (fun hk => by cases hk)

/-- the text cannot be met by any outcome when T accepts an item that has no value range -/
theorem Expect.spanned_needs_range {I : Alg β} {m : Meta} {v : β} {w : Outcome β}
    (H : Expect I m .spanned (.ok v) w) : ∃ s, OwnRange m s := by
  cases H with
  | spanned_ok _ s hs => exact ⟨s, hs⟩

/-- the two side conditions are exactly what is needed: for one `SpannedValue` around any
    implementor, on any item, the text holds if and only if they do -/
theorem wrap_spanned_iff (I : Alg β) (h : Hooks β) (m : Meta) :
    Expect I m .spanned (h.fromMeta m) ((wrapHooks I .spanned h).fromMeta m)
      ↔ ((∀ e, h.fromMeta m = .err e → e.span.isSome = true)
          ∧ (∀ v, h.fromMeta m = .ok v → ∃ s, OwnRange m s)) := by
  constructor
  · intro H
    have e := spanned_transparent I.spanned' h m
    simp only [wrapHooks] at H
    rw [e] at H
    constructor
    · intro e0 he
      rw [he] at H
      have H' : Expect I m .spanned (.err e0) (.err (e0.withSpan m.span)) := H
      have hw : Outcome.err (e0.withSpan m.span) = (Outcome.err e0 : Outcome β) :=
        Expect.unique H' (.err _ e0 rfl)
      have hw' : e0.withSpan m.span = e0 := Outcome.err.inj hw
      rw [← hw']
      exact withSpan_span_isSome e0 m.span
    · intro v hv
      rw [hv] at H
      exact Expect.spanned_needs_range H
  · intro ⟨hS, hR⟩
    exact wrap_fromMeta_partial I .spanned h m (fun _ => hS) (fun _ => hR)

/-- MAIN (existence): any stack of wrappers, of any depth, around any implementor, on any item,
    does what the text says — provided, when `SpannedValue` occurs in the stack, that T's error
    on this item (if any) carries a span and that the item has a value range. -/
theorem stack_fromMeta_partial (I : Alg β) (ws : List W) (h : Hooks β) (m : Meta)
    (hS : W.spanned ∈ ws → ∀ e, h.fromMeta m = .err e → e.span.isSome = true)
    (hR : W.spanned ∈ ws → ∃ s, OwnRange m s) :
    ExpectStack I m ws (h.fromMeta m) ((stackHooks I ws h).fromMeta m) := by
  induction ws with
  | nil => exact .nil _
  | cons k ws ih =>
      have ih' := ih (fun hm => hS (List.mem_cons_of_mem _ hm)) (fun hm => hR (List.mem_cons_of_mem _ hm))
      refine .cons ih' (wrap_fromMeta_partial I k (stackHooks I ws h) m ?_ ?_)
      · intro hk e he
        have hb : h.fromMeta m = .err e := by
          rw [he] at ih'
          exact ExpectStack.err_inv ih'
        exact hS (List.mem_cons.mpr (Or.inl hk.symm)) e hb
      · intro hk _ _
        exact hR (List.mem_cons.mpr (Or.inl hk.symm))

/-- MAIN (model ⟺ text): under the same side conditions the text allows exactly one outcome and it
    is the model's. -/
theorem stack_spec_iff_partial (I : Alg β) (ws : List W) (h : Hooks β) (m : Meta)
    (hS : W.spanned ∈ ws → ∀ e, h.fromMeta m = .err e → e.span.isSome = true)
    (hR : W.spanned ∈ ws → ∃ s, OwnRange m s) (w : Outcome β) :
    ExpectStack I m ws (h.fromMeta m) w ↔ w = (stackHooks I ws h).fromMeta m := by
  constructor
  · intro H
    exact ExpectStack.unique H (stack_fromMeta_partial I ws h m hS hR)
  · intro hw
    rw [hw]
    exact stack_fromMeta_partial I ws h m hS hR

/-- no side condition for stacks built from Option, the smart pointers, WithOriginal, Override and
    the two Results -/
theorem stack_fromMeta_noSpanned (I : Alg β) (ws : List W) (h : Hooks β) (m : Meta)
    (hn : W.spanned ∉ ws) :
    ExpectStack I m ws (h.fromMeta m) ((stackHooks I ws h).fromMeta m) :=
  stack_fromMeta_partial I ws h m (fun hm => absurd hm hn) (fun hm => absurd hm hn)

/-- `hS` holds for every T that leaves `from_meta` at the trait's default -/
theorem stack_fromMeta_default (I : Alg β) (ws : List W) (h : Hooks β) (m : Meta)
    (hd : h.fromMeta? = none)
    (hR : W.spanned ∈ ws → ∃ s, OwnRange m s) :
    ExpectStack I m ws (h.fromMeta m) ((stackHooks I ws h).fromMeta m) :=
  stack_fromMeta_partial I ws h m (fun _ e he => default_err_spanned h hd m e he) hR

/-! ## the absent item -/

theorem wrap_fromNone (I : Alg β) (k : W) (h : Hooks β) :
    (wrapHooks I k h).fromNone = expectNone I k h.fromNone := by
  cases k with
  | option => rfl
  | ptr =>
      have e := ptr_absent I.ptr' h
      simp only [wrapHooks]; rw [e]
      cases h.fromNone <;> rfl
  | result =>
      have e := result_absent I.okv' I.errv' h
      simp only [wrapHooks]; rw [e]
      cases h.fromNone <;> rfl
  | spanned => cases hn : h.fromNone <;> rfl
  | withOrig => cases hn : h.fromNone <;> rfl
  | override => cases hn : h.fromNone <;> rfl
  | resultMeta => cases hn : h.fromNone <;> rfl

/-- MAIN (absent item): no side condition -/
theorem stack_fromNone (I : Alg β) (ws : List W) (h : Hooks β) :
    (stackHooks I ws h).fromNone = expectNoneStack I ws h.fromNone := by
  induction ws with
  | nil => rfl
  | cons k ws ih =>
      simp only [stackHooks, expectNoneStack]
      rw [wrap_fromNone, ih]

/-! ## outside the text: the `flatten` route

  `#[darling(flatten)]` does not hand the field's type a meta item: it calls `from_list` with the
  unclaimed items.  The property speaks about meta items only, so this is not a clause of C12; the
  model (like the code) forwards `from_list` for the smart pointers, `darling::Result<T>` and
  `Override<T>`, and leaves it at the rejecting default for the others. -/

theorem fromList_forwarded (I : Alg β) (h : Hooks β) (items : List NestedMeta) :
    (wrapHooks I .ptr h).fromList items = (h.fromList items).map I.ptr'
    ∧ (wrapHooks I .override h).fromList items = (h.fromList items).map I.explicit' :=
  ⟨rfl, rfl⟩

theorem fromList_not_forwarded (I : Alg β) (k : W)
    (hk : k = .option ∨ k = .spanned ∨ k = .withOrig ∨ k = .resultMeta) (h : Hooks β)
    (items : List NestedMeta) :
    (wrapHooks I k h).fromList items = .err (Err.unsupportedFormat "list") := by
  rcases hk with hk | hk | hk | hk <;> subst hk <;> rfl

/-- "Flag not-present" -/
theorem flag_notPresent (mk : Option Span → β) : (flagHooks mk).fromNone = some (mk none) := rfl

/-- "the other wrappers stay required", whatever T does when absent -/
theorem stays_required (I : Alg β) (k : W)
    (hk : k = .spanned ∨ k = .withOrig ∨ k = .override ∨ k = .resultMeta) (t : Option β) :
    expectNone I k t = none := by
  rcases hk with hk | hk | hk | hk <;> subst hk <;> cases t <;> rfl

/-! ## the function the driver executes: `hooksOf` -/

/-- the driver's representation of wrapped values (`Val`); an item is kept as its token string -/
def valAlg : Alg Val where
  some' := .some
  none' := .none
  ptr' := .ptr
  okv' := .okv
  errv' := .errv
  okm' := .okm
  errm' := fun m => .errm m.toks
  inherit' := .inherit
  explicit' := .explicit
  spanned' := .spanned
  withOrig' := fun v m => .withOrig v m.toks

def W.ty : W → Ty → Ty
  | .option, t => .option t
  | .ptr, t => .ptr t
  | .spanned, t => .spanned t
  | .withOrig, t => .withOrig t
  | .override, t => .override t
  | .result, t => .result t
  | .resultMeta, t => .resultMeta t

/-- the type `W₁<W₂<…<T>>>` -/
def stackTy : List W → Ty → Ty
  | [], t => t
  | k :: ws, t => k.ty (stackTy ws t)

theorem hooksOf_stack (o : Oracle) (r : String → Hooks Val) (ws : List W) (t : Ty) :
    hooksOf o r (stackTy ws t) = stackHooks valAlg ws (hooksOf o r t) := by
  induction ws with
  | nil => rfl
  | cons k ws ih =>
      cases k <;> simp only [stackTy, W.ty, hooksOf, stackHooks, wrapHooks, valAlg, ih]

theorem hooksOf_stack_fromMeta_partial (o : Oracle) (r : String → Hooks Val) (ws : List W) (t : Ty)
    (m : Meta)
    (hS : W.spanned ∈ ws → ∀ e, (hooksOf o r t).fromMeta m = .err e → e.span.isSome = true)
    (hR : W.spanned ∈ ws → ∃ s, OwnRange m s) (w : Outcome Val) :
    ExpectStack valAlg m ws ((hooksOf o r t).fromMeta m) w
      ↔ w = (hooksOf o r (stackTy ws t)).fromMeta m := by
  rw [hooksOf_stack]
  exact stack_spec_iff_partial valAlg ws (hooksOf o r t) m hS hR w

theorem hooksOf_stack_fromNone (o : Oracle) (r : String → Hooks Val) (ws : List W) (t : Ty) :
    (hooksOf o r (stackTy ws t)).fromNone = expectNoneStack valAlg ws (hooksOf o r t).fromNone := by
  rw [hooksOf_stack]
  exact stack_fromNone valAlg ws (hooksOf o r t)

/-- the inner targets of the property's quantifier (bool, u8, i64, String, char, Path, Ident,
    Expr, LitStr, PathList, a string map); receivers are `Ty.recv` and depend on the environment -/
def quantifierBase : Ty → Bool
  | .bool => true
  | .int _ => true
  | .string => true
  | .char => true
  | .synPath => true
  | .synIdent => true
  | .synExpr => true
  | .litKind _ => true
  | .pathList => true
  | .map _ _ _ => true
  | _ => false

/-- every one of them leaves `from_meta` at the default, so `hS` is discharged for them -/
theorem quantifierBase_default (o : Oracle) (r : String → Hooks Val) (t : Ty)
    (hq : quantifierBase t = true) : (hooksOf o r t).fromMeta? = none := by
  cases t <;> first | rfl | cases hq

/-- the property on its own quantifier: inner target from the list, or a receiver whose derived
    impl keeps the default `from_meta` (named-field structs and enums) -/
theorem quantifier_stack_iff_partial (o : Oracle) (r : String → Hooks Val) (ws : List W) (t : Ty)
    (m : Meta)
    (hq : (hooksOf o r t).fromMeta? = none)
    (hR : W.spanned ∈ ws → ∃ s, OwnRange m s) (w : Outcome Val) :
    ExpectStack valAlg m ws ((hooksOf o r t).fromMeta m) w
      ↔ w = (hooksOf o r (stackTy ws t)).fromMeta m :=
  hooksOf_stack_fromMeta_partial o r ws t m
    (fun _ e he => default_err_spanned _ hq m e he) hR w

/-- "contain exactly the value T produces", read off a `Val` -/
def contents : Val → Option Val
  | .some v => some v
  | .ptr v => some v
  | .explicit v => some v
  | .spanned v _ => some v
  | .withOrig v _ => some v
  | _ => none

theorem Expect.contains {m : Meta} {k : W} {v : Val} {w : Outcome Val}
    (H : Expect valAlg m k (.ok v) w) (hk : inScope k m = true) :
    ∃ x, w = .ok x ∧ contents x = some v := by
  cases H with
  | override_word t hw => simp only [inScope, hw] at hk; cases hk
  | result_ok _ => cases hk
  | resultMeta_ok _ => cases hk
  | option_ok _ => exact ⟨_, rfl, rfl⟩
  | ptr_ok _ => exact ⟨_, rfl, rfl⟩
  | withOrig_ok _ => exact ⟨_, rfl, rfl⟩
  | spanned_ok _ _ _ => exact ⟨_, rfl, rfl⟩
  | override_ok _ _ => exact ⟨_, rfl, rfl⟩

/-! ## concrete items used below -/

def pX : Path := { global := false, segs := ["x"], plain := true, toks := "x", span := ⟨0, 1⟩ }
/-- `x` -/
def wordX : Meta := .path pX
/-- `x()` -/
def emptyListX : Meta := .list pX [] none none "x ()" ⟨0, 3⟩
/-- `x(a)` -/
def listX : Meta :=
  .list pX [.item (.path { global := false, segs := ["a"], plain := true, toks := "a", span := ⟨2, 3⟩ })]
    none (some ⟨2, 3⟩) "x (a)" ⟨0, 4⟩
/-- `x = true` -/
def nvX : Meta := .nameValue pX (.lit { v := .bool true, toks := "true", span := ⟨4, 8⟩ }) "x = true" ⟨0, 8⟩

/-- a hand-written implementor whose `from_meta` returns an error without a span -/
def bare : Hooks Val := { fromMeta? := some (fun _ => .err (Err.custom "no")) }
/-- a hand-written implementor whose `from_meta` accepts everything -/
def anyOk : Hooks Val := { fromMeta? := some (fun _ => .ok .unit) }

def noRecv : String → Hooks Val := fun _ => {}

/-! ## DISCREPANCY 1 — "fail with T's error": `SpannedValue<T>` returns T's error *with the item's
    span added* when T's own `from_meta` returned it without one.  Inside the property's
    quantifier this cannot happen (`default_err_spanned`); for "every target type T" it does.
    Real library (scratch crate /tmp/aud-C12, T = a hand-written impl whose `from_meta` returns
    `Err(Error::custom("no"))`, item `x`): `T`, `Option<T>`, `Box<T>`, `WithOriginal<T, Meta>`,
    `Override<T>` all give `explicit_span() = None`; `SpannedValue<T>` gives `Some(bytes 0..1)`. -/

example : bare.fromMeta wordX = .err (.leaf (.custom "no") [] none) := rfl
example : (wrapHooks valAlg .spanned bare).fromMeta wordX
    = .err (.leaf (.custom "no") [] (some ⟨0, 1⟩)) := rfl
/-- the text is violated at this input (so `hS` cannot be dropped) -/
example : ¬ Expect valAlg wordX .spanned (bare.fromMeta wordX)
    ((wrapHooks valAlg .spanned bare).fromMeta wordX) := by
  intro H
  have H' : Expect valAlg wordX .spanned (.err (.leaf (.custom "no") [] none))
      (.err (.leaf (.custom "no") [] (some ⟨0, 1⟩))) := H
  cases H'
/-- all the other transparent wrappers do return T's error untouched on the same input -/
example : (wrapHooks valAlg .option bare).fromMeta wordX = bare.fromMeta wordX := rfl
example : (wrapHooks valAlg .withOrig bare).fromMeta wordX = bare.fromMeta wordX := rfl

/-! ## DISCREPANCY 2 — "SpannedValue records the value's own source range": for a list without
    contents, `x()`, the recorded span is no range of the source at all (`list.tokens.span()` of
    an empty stream = `Span::call_site()`; `none` in the model).
    Real library: `SpannedValue<PathList>` / `SpannedValue<Inner>` on `x()` record bytes 0..0 with
    no source text (= `Span::call_site()`), while `x`, `x(a, b::c)`, `x = true` record `x`,
    `a, b::c`, `true`. -/

example : (hooksOf {} noRecv (.spanned .pathList)).fromMeta emptyListX
    = .ok (.spanned (.list []) none) := rfl
example : (hooksOf {} noRecv .pathList).fromMeta emptyListX = .ok (.list []) := rfl
/-- the text is violated at this input (so `hR` cannot be dropped) -/
example : ¬ Expect valAlg emptyListX .spanned ((hooksOf {} noRecv .pathList).fromMeta emptyListX)
    ((hooksOf {} noRecv (.spanned .pathList)).fromMeta emptyListX) := by
  intro H
  have H' : Expect valAlg emptyListX .spanned (.ok (.list [])) (.ok (.spanned (.list []) none)) := H
  cases H'
/-- … and no outcome whatsoever would satisfy it there: the item has no value range -/
example (I : Alg β) (v : β) (w : Outcome β) : ¬ Expect I emptyListX .spanned (.ok v) w := by
  intro H
  cases H with
  | spanned_ok _ s hs => cases hs

/-! ## non-vacuity of the side conditions of the main theorems -/

/-- `hR` is satisfiable in each of the three forms … -/
example : ∃ s, OwnRange wordX s := ⟨_, .word _⟩
example : ∃ s, OwnRange listX s := ⟨_, .contents _ _ _ _ _ _⟩
example : ∃ s, OwnRange nvX s := ⟨_, .value _ _ _ _⟩
/-- … and fails exactly for lists without contents -/
example : ¬ ∃ s, OwnRange emptyListX s := by
  intro ⟨s, hs⟩
  cases hs

/-- `hS` is satisfiable with a T that does fail (so the `err` clause is exercised) … -/
example : (hooksOf {} noRecv .bool).fromMeta listX
    = .err (.leaf (.unexpectedFormat "list") [] (some ⟨0, 4⟩)) := rfl
example : ∀ e, (hooksOf {} noRecv .bool).fromMeta listX = .err e → e.span.isSome = true :=
  fun e he => default_err_spanned _ rfl listX e he
/-- … and fails for `bare` -/
example : ¬ ∀ e, bare.fromMeta wordX = .err e → e.span.isSome = true := by
  intro h
  have := h _ rfl
  cases this

/-- `hd` of `stack_fromMeta_default` / `hq` of `quantifier_stack_iff_partial`: every listed inner
    target, and not every type -/
example : (hooksOf {} noRecv .bool).fromMeta? = none := rfl
example : quantifierBase (.map .string true .string) = true := rfl
example : (hooksOf {} noRecv .synMeta).fromMeta? ≠ none := by
  intro h
  cases h

/-- `hn` of `stack_fromMeta_noSpanned` -/
example : W.spanned ∉ [W.option, W.override, W.result] := by decide

/-- the hypotheses of the spec-level lemmas: in scope / out of scope -/
example : inScope .override nvX = true := rfl
example : inScope .override wordX = false := rfl
example : inScope .spanned wordX = true := rfl

/-- the main theorem at work on two-level and three-level stacks, all three outcomes of T -/
example : (hooksOf {} noRecv (stackTy [.option, .spanned] .bool)).fromMeta nvX
    = .ok (.some (.spanned (.bool true) (some ⟨4, 8⟩))) := rfl
example : (hooksOf {} noRecv (stackTy [.override, .ptr] .bool)).fromMeta wordX = .ok .inherit := rfl
example : (hooksOf {} noRecv (stackTy [.resultMeta, .withOrig, .option] .bool)).fromMeta listX
    = .ok (.errm "x (a)") := rfl
example : ExpectStack valAlg nvX [.option, .spanned] (.ok (.bool true))
    (.ok (.some (.spanned (.bool true) (some ⟨4, 8⟩)))) :=
  .cons (.cons (.nil _) (.spanned_ok _ _ (.value _ _ _ _))) (.option_ok _)
/-- absent item, two levels: `Box<Option<T>>` is optional, `SpannedValue<Option<T>>` is required -/
example : (hooksOf {} noRecv (stackTy [.ptr, .option] .bool)).fromNone = some (.ptr .none) := rfl
example : (hooksOf {} noRecv (stackTy [.spanned, .option] .bool)).fromNone = none := rfl
example : (hooksOf {} noRecv .flag).fromNone = some (.flag none) := rfl

end C12
