import Darling.Suggest
import Darling.Derive.Struct
import Darling.Derive.Enum
/-
  C17 — Did-you-mean suggestions are sound, best-match and scoped to the level.
  For every candidate list with arbitrary scores (the similarity measure is external), every
  threshold, every error tree.
-/
open Suggest Derive

namespace C17

/-! ### `did_you_mean`: sound and best -/

/-- what "the best candidate of `l` above the threshold" means -/
def Best (thr : Nat) (l : List (String × Nat)) : Option (Nat × String) → Prop
  | none => ∀ b sb, (b, sb) ∈ l → sb ≤ thr
  | some (sc, a) => (a, sc) ∈ l ∧ sc > thr ∧ ∀ b sb, (b, sb) ∈ l → sb ≤ sc

theorem dymStep_none (thr : Nat) (alt : String) (conf : Nat) :
    dymStep thr none (alt, conf) = if conf > thr then some (conf, alt) else none := by
  unfold dymStep
  by_cases h : conf > thr <;> simp [h]

theorem dymStep_some (thr : Nat) (csc : Nat) (ca alt : String) (conf : Nat) :
    dymStep thr (some (csc, ca)) (alt, conf) = if conf > thr ∧ csc < conf then some (conf, alt) else some (csc, ca) := by
  unfold dymStep
  by_cases h1 : conf > thr <;> by_cases h2 : csc < conf <;> simp [h1, h2]

/-- one iteration keeps the invariant -/
theorem best_step (thr : Nat) (l : List (String × Nat)) (c : Option (Nat × String)) (alt : String) (conf : Nat)
    (h : Best thr l c) : Best thr (l ++ [(alt, conf)]) (dymStep thr c (alt, conf)) := by
  cases c with
  | none =>
      rw [dymStep_none]
      by_cases hgt : conf > thr
      · rw [if_pos hgt]
        refine ⟨by simp, hgt, ?_⟩
        intro b sb hb
        rcases List.mem_append.mp hb with hb | hb
        · have := h b sb hb; omega
        · simp at hb; omega
      · rw [if_neg hgt]
        intro b sb hb
        rcases List.mem_append.mp hb with hb | hb
        · exact h b sb hb
        · simp at hb; omega
  | some c =>
      obtain ⟨csc, ca⟩ := c
      obtain ⟨hmem, hthr, hbest⟩ := h
      rw [dymStep_some]
      by_cases hgt : conf > thr ∧ csc < conf
      · rw [if_pos hgt]
        refine ⟨by simp, hgt.1, ?_⟩
        intro b sb hb
        rcases List.mem_append.mp hb with hb | hb
        · have := hbest b sb hb; omega
        · simp at hb; omega
      · rw [if_neg hgt]
        refine ⟨List.mem_append.mpr (Or.inl hmem), hthr, ?_⟩
        intro b sb hb
        rcases List.mem_append.mp hb with hb | hb
        · exact hbest b sb hb
        · simp at hb
          obtain ⟨_, rfl⟩ := hb
          by_cases h1 : sb > thr
          · have : ¬ csc < sb := fun h2 => hgt ⟨h1, h2⟩
            omega
          · omega

theorem best_foldl (thr : Nat) (rest pre : List (String × Nat)) (c : Option (Nat × String)) (h : Best thr pre c) :
    Best thr (pre ++ rest) (rest.foldl (dymStep thr) c) := by
  induction rest generalizing pre c with
  | nil => simpa using h
  | cons pv rest ih =>
      obtain ⟨alt, conf⟩ := pv
      have := ih (pre ++ [(alt, conf)]) _ (best_step thr pre c alt conf h)
      simpa [List.append_assoc] using this

theorem didYouMean_is_best (thr : Nat) (alts : List (String × Nat)) : Best thr alts (didYouMean thr alts) := by
  have := best_foldl thr alts [] none (by intro b sb hb; cases hb)
  simpa [didYouMean] using this

/-- **sound and best-match**: a suggestion is one of the candidates, its similarity exceeds the
    threshold, and no candidate is more similar -/
theorem didYouMean_best (thr : Nat) (alts : List (String × Nat)) (sc : Nat) (a : String)
    (h : didYouMean thr alts = some (sc, a)) :
    (a, sc) ∈ alts ∧ sc > thr ∧ ∀ b sb, (b, sb) ∈ alts → sb ≤ sc := by
  have := didYouMean_is_best thr alts
  rw [h] at this
  exact this

/-- no suggestion is offered exactly when no candidate exceeds the threshold -/
theorem didYouMean_none_iff (thr : Nat) (alts : List (String × Nat)) :
    didYouMean thr alts = none ↔ ∀ b sb, (b, sb) ∈ alts → sb ≤ thr := by
  constructor
  · intro h
    have := didYouMean_is_best thr alts
    rw [h] at this
    exact this
  · intro h
    cases hd : didYouMean thr alts with
    | none => rfl
    | some c =>
        obtain ⟨sc, a⟩ := c
        obtain ⟨hm, hgt, _⟩ := didYouMean_best thr alts sc a hd
        have := h a sc hm
        omega

/-! ### a better earlier suggestion is never replaced by a worse one -/

theorem addAlts_monotone (thr : Nat) (cur : Option (Nat × String)) (alts : List (String × Nat)) (csc : Nat) (ca : String)
    (hc : cur = some (csc, ca)) :
    ∃ sc a, addAlts thr cur alts = some (sc, a) ∧ csc ≤ sc ∧ (sc = csc → a = ca) := by
  subst hc
  unfold addAlts
  cases hd : didYouMean thr alts with
  | none => exact ⟨csc, ca, rfl, Nat.le_refl _, fun _ => rfl⟩
  | some bna =>
      obtain ⟨bsc, ba⟩ := bna
      by_cases hgt : bsc > csc
      · exact ⟨bsc, ba, by simp [hgt], by omega, by intro h; omega⟩
      · exact ⟨csc, ca, by simp [hgt], Nat.le_refl _, fun _ => rfl⟩

theorem addAlts_from_candidates (thr : Nat) (alts : List (String × Nat)) (sc : Nat) (a : String)
    (h : addAlts thr none alts = some (sc, a)) : (a, sc) ∈ alts ∧ sc > thr := by
  unfold addAlts at h
  cases hd : didYouMean thr alts with
  | none => simp [hd] at h
  | some bna =>
      simp [hd] at h
      subst h
      exact ⟨(didYouMean_best thr alts _ _ hd).1, (didYouMean_best thr alts _ _ hd).2.1⟩

/-! ### scope: enclosing names only for what the flatten member received directly -/

/-- an error that has already been located (it was rejected *inside* a nested item) is untouched -/
theorem siblingAlts_located_untouched (thr : Nat) (scores : String → List (String × Nat)) (e : Err)
    (h : e.locs ≠ []) : addSiblingAlts thr scores e = e := by
  cases e with
  | leaf k ls sp =>
      unfold addSiblingAlts
      have : ls.isEmpty = false := by cases ls <;> simp_all [Err.locs]
      simp [this]
  | multi cs ls sp =>
      unfold addSiblingAlts
      have : ls.isEmpty = false := by cases ls <;> simp_all [Err.locs]
      simp [this]

/-- a suggestion is attached only to unknown-name errors: every other leaf is unchanged -/
theorem siblingAlts_only_unknown (thr : Nat) (scores : String → List (String × Nat)) (k : Kind) (ls : List String) (sp : Option Span)
    (hk : ∀ n d, k ≠ .unknownField n d) : addSiblingAlts thr scores (.leaf k ls sp) = .leaf k ls sp := by
  unfold addSiblingAlts
  split
  · rfl
  · cases k <;> first | rfl | exact absurd rfl (hk _ _)

/-- an unlocated unknown-name leaf gets the better of its current suggestion and the best enclosing name -/
theorem siblingAlts_unknown (thr : Nat) (scores : String → List (String × Nat)) (n : String) (d : Option (Nat × String)) (sp : Option Span) :
    addSiblingAlts thr scores (.leaf (.unknownField n d) [] sp) = .leaf (.unknownField n (addAlts thr d (scores n))) [] sp := by
  simp [addSiblingAlts]

/-! ### the suggested name is valid at that very position -/

/-- struct receivers: candidates are exactly the addressable names (not skipped, not flatten) -/
theorem struct_candidates {ν : Type} (r : SStruct ν) (a : String) :
    a ∈ r.names ↔ ∃ f ∈ r.fields, f.skip = false ∧ f.flatten = false ∧ f.name = a := by
  simp only [SStruct.names, List.mem_filterMap, SField.asName]
  constructor
  · rintro ⟨f, hf, h⟩
    cases hs : f.skip <;> cases hfl : f.flatten <;> simp [hs, hfl] at h
    exact ⟨f, hf, hs, hfl, h⟩
  · rintro ⟨f, hf, hs, hfl, hn⟩
    exact ⟨f, hf, by simp [hs, hfl, hn]⟩

/-- … so a suggested name would have been accepted, and is never the rejected name itself -/
theorem struct_suggestion_valid {ν : Type} (r : SStruct ν) (name : String) (sc : Nat) (a : String)
    (hunknown : r.arm name = none)
    (h : r.unknownErr name = Err.new (.unknownField name (some (sc, a)))) :
    (∃ f, r.arm a = some f) ∧ a ≠ name := by
  unfold SStruct.unknownErr at h
  simp only [Err.new, Err.leaf.injEq, Kind.unknownField.injEq, true_and, and_true] at h
  obtain ⟨hmem, _, _⟩ := didYouMean_best r.thr _ sc a h
  simp only [List.mem_map] at hmem
  obtain ⟨a', ha', heq⟩ := hmem
  simp at heq
  obtain ⟨rfl, _⟩ := heq
  obtain ⟨f, hf, hs, hfl, hn⟩ := (struct_candidates r a').mp ha'
  have harm : (r.arm a').isSome = true := by
    unfold SStruct.arm
    rw [List.find?_isSome]
    exact ⟨f, hf, by simp [hs, hfl, hn]⟩
  constructor
  · cases hx : r.arm a' with
    | some g => exact ⟨g, rfl⟩
    | none => simp [hx] at harm
  · intro heq; subst heq; simp [hunknown] at harm

/-- enum receivers: candidates are the selectable (non-skipped) variants -/
theorem enum_suggestion_valid {ν : Type} (e : SEnum ν) (name : String) (sc : Nat) (a : String)
    (hunknown : e.arm name = none)
    (h : e.unknownErr name = Err.new (.unknownField name (some (sc, a)))) :
    (∃ v, e.arm a = some v) ∧ a ≠ name := by
  unfold SEnum.unknownErr at h
  split at h
  · simp [Err.new] at h
  · simp only [Err.new, Err.leaf.injEq, Kind.unknownField.injEq, true_and, and_true] at h
    obtain ⟨hmem, _, _⟩ := didYouMean_best e.thr _ sc a h
    simp only [List.mem_map] at hmem
    obtain ⟨a', ha', heq⟩ := hmem
    simp at heq
    obtain ⟨rfl, _⟩ := heq
    simp only [SEnum.names, List.mem_map, List.mem_filter] at ha'
    obtain ⟨v, ⟨hv, hs⟩, hn⟩ := ha'
    have harm : (e.arm a').isSome = true := by
      unfold SEnum.arm
      rw [List.find?_isSome]
      exact ⟨v, hv, by simp at hs; simp [hs, hn]⟩
    constructor
    · cases hx : e.arm a' with
      | some g => exact ⟨g, rfl⟩
      | none => simp [hx] at harm
    · intro heq; subst heq; simp [hunknown] at harm

/-! ### feature off -/
theorem suggestions_off (alts : List (String × Nat)) : didYouMeanOff alts = none := rfl

/-- with every score at or below the threshold (in particular: feature off) errors carry no suggestion -/
theorem no_scores_no_suggestion (thr : Nat) (alts : List (String × Nat)) (h : ∀ b sb, (b, sb) ∈ alts → sb ≤ thr) :
    didYouMean thr alts = none := (didYouMean_none_iff thr alts).mpr h

/-! non-vacuity -/
example : didYouMean 80 [("alpha", 70), ("beta", 95), ("gamma", 95), ("delta", 90)] = some (95, "beta") := by decide
example : didYouMean 80 [("alpha", 70), ("beta", 80)] = none := by decide
example : addAlts 80 (some (95, "beta")) [("zeta", 90)] = some (95, "beta") := by decide

end C17
