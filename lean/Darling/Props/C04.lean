import Darling.Error
import Darling.Suggest
import Darling.Spec.C04
import Darling.Lemmas.Error
/-
  C04 — Error trees: count, flatten, location paths and rendering obey their algebra.

  Every theorem below holds for *all* error trees (any arity, any depth, any mix of kinds) and,
  through `Reachable`, for every history of public-API calls.  Nothing is bounded.
-/
open Spec.C04 Err

namespace C04

/-! ### the trees the public API can build -/

/-- every value obtainable from the public constructors and methods, in any interleaving -/
inductive Reachable : Err → Prop
  | new (k) : Reachable (Err.new k)
  | «at» {e} (l) : Reachable e → Reachable (e.at l)
  | withSpan {e} (s) : Reachable e → Reachable (e.withSpan s)
  | multiple {es e} : (∀ x ∈ es, Reachable x) → Err.multiple es = .ok e → Reachable e
  | flatten {e f} : Reachable e → e.flatten = .ok f → Reachable f
  | intoIter {e c} : Reachable e → c ∈ e.intoIter → Reachable c
  | siblingAlts {e} (thr scores) : Reachable e → Reachable (Suggest.addSiblingAlts thr scores e)
  -- `clone` is the identity on values

theorem WF_at {e} (l : String) (h : WF e) : WF (e.at l) := by
  cases h with
  | leaf k ls s => exact WF.leaf ..
  | multi cs ls s h2 hall => exact WF.multi _ _ _ h2 hall

theorem WF_withSpan {e} (sp : Span) (h : WF e) : WF (e.withSpan sp) := by
  cases h with
  | leaf k ls s => cases s <;> exact WF.leaf ..
  | multi cs ls s h2 hall => cases s <;> exact WF.multi _ _ _ h2 hall

theorem WF_multiple {es : List Err} {e : Err} (hall : ∀ x ∈ es, WF x) (h : Err.multiple es = .ok e) : WF e := by
  match es, h with
  | [x], h => simp [Err.multiple] at h; subst h; exact hall x (by simp)
  | x :: y :: r, h =>
      simp [Err.multiple] at h; subst h
      exact WF.multi _ _ _ (by simp) hall

theorem isLeaf_WF {e : Err} (h : e.isLeaf = true) : WF e := by
  cases e with
  | leaf k ls s => exact WF.leaf ..
  | multi cs ls s => simp [isLeaf] at h

theorem WF_flatten {e f : Err} (h : e.flatten = .ok f) : WF f :=
  WF_multiple (fun x hx => isLeaf_WF (intoVecP_allLeaf [] none e x hx)) h

theorem WF_intoIter {e c : Err} (h : WF e) (hc : c ∈ e.intoIter) : WF c := by
  cases h with
  | leaf k ls s => simp [Err.intoIter] at hc; subst hc; exact WF.leaf ..
  | multi cs ls s h2 hall => exact hall c (by simpa [Err.intoIter] using hc)

theorem siblingList_length (thr scores) (cs : List Err) :
    (Suggest.addSiblingAltsList thr scores cs).length = cs.length := by
  induction cs with
  | nil => simp [Suggest.addSiblingAltsList]
  | cons c cs ih => simp [Suggest.addSiblingAltsList, ih]

theorem siblingList_mem (thr scores) (cs : List Err) :
    ∀ x ∈ Suggest.addSiblingAltsList thr scores cs, ∃ c ∈ cs, x = Suggest.addSiblingAlts thr scores c := by
  induction cs with
  | nil => simp [Suggest.addSiblingAltsList]
  | cons c cs ih =>
      intro x hx
      simp [Suggest.addSiblingAltsList] at hx
      rcases hx with h | h
      · exact ⟨c, by simp, h⟩
      · obtain ⟨c', hc', he⟩ := ih x h
        exact ⟨c', by simp [hc'], he⟩

theorem WF_siblingAlts (thr scores) {e} (h : WF e) : WF (Suggest.addSiblingAlts thr scores e) := by
  induction h with
  | leaf k ls s =>
      unfold Suggest.addSiblingAlts
      split
      · exact WF.leaf ..
      · split <;> exact WF.leaf ..
  | multi cs ls s h2 hall ih =>
      unfold Suggest.addSiblingAlts
      split
      · exact WF.multi _ _ _ h2 hall
      · refine WF.multi _ _ _ (by rw [siblingList_length]; exact h2) ?_
        intro x hx
        obtain ⟨c, hc, he⟩ := siblingList_mem thr scores cs x hx
        subst he
        exact ih c hc

/-- **Every error value a caller can ever hold is well formed**: no empty bundle, no bundle of
    one (a bundle of one *is* that one). -/
theorem reachable_WF {e} (h : Reachable e) : WF e := by
  induction h with
  | new k => exact WF.leaf ..
  | «at» l _ ih => exact WF_at l ih
  | withSpan s _ ih => exact WF_withSpan s ih
  | multiple _ hm ih => exact WF_multiple ih hm
  | flatten _ hf _ => exact WF_flatten hf
  | intoIter _ hc ih => exact WF_intoIter ih hc
  | siblingAlts thr scores _ ih => exact WF_siblingAlts thr scores ih

/-! ### bundling -/

theorem multiple_one (e : Err) : Err.multiple [e] = .ok e := rfl

theorem multiple_empty_panics : (Err.multiple []).isPanic = true := rfl

theorem multiple_many (es : List Err) (h : 2 ≤ es.length) : Err.multiple es = .ok (.multi es [] none) := by
  match es, h with
  | _ :: _ :: _, _ => rfl

/-! ### count -/

mutual
theorem len_eq_leavesUnder (anc : List String) (e : Err) : e.len = (leavesUnder anc e).length := by
  cases e with
  | leaf k ls s => simp [leavesUnder]
  | multi cs ls s => simp [leavesUnder]; exact lenList_eq_leavesListUnder _ cs
theorem lenList_eq_leavesListUnder (anc : List String) (es : List Err) :
    lenList es = (leavesListUnder anc es).length := by
  cases es with
  | nil => simp [leavesListUnder]
  | cons c cs =>
      simp [leavesListUnder, ← len_eq_leavesUnder anc c, ← lenList_eq_leavesListUnder anc cs]
end

/-- the reported count equals the number of leaf errors -/
theorem len_eq_leaves (e : Err) : e.len = (leaves e).length := len_eq_leavesUnder [] e

/-- … and is at least 1 for every reachable value -/
theorem len_pos {e} (h : Reachable e) : 1 ≤ e.len := WF_len_pos (reachable_WF h)

/-! ### flatten -/

/-- kind and path of a flattened element -/
def kp : Err → Kind × List String
  | .leaf k ls _ => (k, ls)
  | .multi _ ls _ => (.custom "<bundle>", ls)

theorem kp_inherit (k ls s sp) : kp ((Err.leaf k ls s).inheritSpan sp) = (k, ls) := by
  obtain ⟨s', hs⟩ := inheritSpan_leaf k ls s sp
  rw [hs]; rfl

mutual
theorem intoVecP_kp (pre sp) (e : Err) :
    (intoVecP pre sp e).map kp = (leavesUnder pre e).map (fun d => (d.kind, d.path)) := by
  cases e with
  | leaf k ls s => simp [leavesUnder, kp_inherit]
  | multi cs ls s => simp [leavesUnder]; exact intoVecListP_kp _ _ cs
theorem intoVecListP_kp (pre sp) (es : List Err) :
    (intoVecListP pre sp es).map kp = (leavesListUnder pre es).map (fun d => (d.kind, d.path)) := by
  cases es with
  | nil => simp [leavesListUnder]
  | cons c cs => simp [leavesListUnder, intoVecP_kp pre sp c, intoVecListP_kp pre sp cs]
end

/-- flattening never fails on a reachable value and its items are exactly the leaves, left to
    right, each one a leaf carrying all its ancestors' locations followed by its own -/
theorem flatten_spec {e} (h : Reachable e) :
    ∃ f, e.flatten = .ok f
      ∧ (∀ x ∈ f.intoIter, x.isLeaf = true)
      ∧ f.intoIter.map kp = (leaves e).map (fun d => (d.kind, d.path)) := by
  have hwf := reachable_WF h
  have hlen : (intoVec e).length = e.len := intoVecP_length [] none e
  have hpos := WF_len_pos hwf
  have hkp := intoVecP_kp [] none e
  have hleaf := intoVecP_allLeaf [] none e
  unfold Err.flatten
  generalize hv : intoVec e = v at *
  match v, hv with
  | [], _ => simp at hlen; omega
  | [x], hv =>
      refine ⟨x, rfl, ?_, ?_⟩
      · have hx := hleaf x (by simp [intoVec] at hv; simp [hv])
        cases x with
        | leaf k ls s => intro y hy; simp [Err.intoIter] at hy; subst hy; rfl
        | multi _ _ _ => simp [isLeaf] at hx
      · have hx := hleaf x (by simp [intoVec] at hv; simp [hv])
        cases x with
        | leaf k ls s => simp [Err.intoIter, leaves]; simp [intoVec] at hv; rw [hv] at hkp; simpa using hkp
        | multi _ _ _ => simp [isLeaf] at hx
  | x :: y :: r, hv =>
      refine ⟨.multi (x :: y :: r) [] none, rfl, ?_, ?_⟩
      · intro z hz; simp [Err.intoIter] at hz
        apply hleaf; simp [intoVec] at hv; rw [hv]; simpa using hz
      · simp [Err.intoIter, leaves]; simp [intoVec] at hv; rw [hv] at hkp; simpa using hkp

/-- flattening twice equals flattening once -/
theorem flatten_idem {e f : Err} (hf : e.flatten = .ok f) : f.flatten = .ok f := by
  have hleaf := intoVecP_allLeaf [] none e
  unfold Err.flatten at hf
  generalize hv : intoVec e = v at *
  match v, hv, hf with
  | [x], hv, hf =>
      simp [Err.multiple] at hf; subst hf
      have hx := hleaf x (by simp [intoVec] at hv; simp [hv])
      cases x with
      | leaf k ls s => simp [Err.flatten, intoVec, inheritSpan, Err.multiple]
      | multi _ _ _ => simp [isLeaf] at hx
  | x :: y :: r, hv, hf =>
      simp [Err.multiple] at hf; subst hf
      have hid : intoVecListP [] none (x :: y :: r) = x :: y :: r :=
        intoVecListP_leaves_id _ (by intro z hz; apply hleaf; simp [intoVec] at hv; rw [hv]; exact hz)
      simp only [Err.flatten, intoVec, intoVecP_multi, List.append_nil, Option.or_none] 
      rw [hid]; rfl

/-- flattening preserves the count -/
theorem flatten_len {e f : Err} (hf : e.flatten = .ok f) : f.len = e.len := by
  have hlen : (intoVec e).length = e.len := intoVecP_length [] none e
  have hleaf := intoVecP_allLeaf [] none e
  unfold Err.flatten at hf
  generalize hv : intoVec e = v at *
  match v, hv, hf with
  | [x], hv, hf =>
      simp [Err.multiple] at hf; subst hf
      have hx := hleaf x (by simp [intoVec] at hv; simp [hv])
      cases x with
      | leaf k ls s => simp at hlen; simp [← hlen]
      | multi _ _ _ => simp [isLeaf] at hx
  | x :: y :: r, hv, hf =>
      simp [Err.multiple] at hf; subst hf
      rw [len_multi, lenList_leaves _ (by intro z hz; apply hleaf; simp [intoVec] at hv; rw [hv]; exact hz)]
      exact hlen

/-! ### location paths -/

mutual
theorem leavesUnder_cons (l : String) (anc : List String) (e : Err) :
    leavesUnder (l :: anc) e = (leavesUnder anc e).map (fun d => { d with path := l :: d.path }) := by
  cases e with
  | leaf k ls s => simp [leavesUnder]
  | multi cs ls s => simp [leavesUnder]; exact leavesListUnder_cons l _ cs
theorem leavesListUnder_cons (l : String) (anc : List String) (es : List Err) :
    leavesListUnder (l :: anc) es = (leavesListUnder anc es).map (fun d => { d with path := l :: d.path }) := by
  cases es with
  | nil => simp [leavesListUnder]
  | cons c cs => simp [leavesListUnder, leavesUnder_cons l anc c, leavesListUnder_cons l anc cs]
end

/-- `at` puts the new location in front of every leaf's path -/
theorem at_leaves (e : Err) (l : String) :
    leaves (e.at l) = (leaves e).map (fun d => { d with path := l :: d.path }) := by
  cases e with
  | leaf k ls s => simp [leaves, Err.at, leavesUnder]
  | multi cs ls s =>
      simp only [leaves, Err.at, leavesUnder, List.nil_append]
      exact leavesListUnder_cons l ls cs

/-- `with_span` changes no kind, path or count -/
theorem withSpan_kp (e : Err) (s : Span) :
    (leaves (e.withSpan s)).map (fun d => (d.kind, d.path)) = (leaves e).map (fun d => (d.kind, d.path)) := by
  cases e with
  | leaf k ls sp => cases sp <;> simp [leaves, Err.withSpan, leavesUnder]
  | multi cs ls sp => cases sp <;> simp [leaves, Err.withSpan, leavesUnder]

/-! ### rendering -/

/-- Display of a leaf: the kind-specific message, then ` at a/b/c` when a path exists -/
theorem display_leaf (k ls s) : (Err.leaf k ls s).display = render k ls := by
  simp [Err.display, render, locSuffix]

/-- … hence every item of a flattened error renders as its kind's message followed by the full
    outer-to-inner path -/
theorem display_flattened (x : Err) (hx : x.isLeaf = true) : x.display = render (kp x).1 (kp x).2 := by
  cases x with
  | leaf k ls s => simp [kp, display_leaf]
  | multi _ _ _ => simp [isLeaf] at hx

/-! ### conversion to compiler diagnostics -/

/-- one diagnostic per leaf, in leaf order, built from the flattened leaves -/
theorem toSyn_rows {e} (h : Reachable e) : e.toSyn = (intoVec e).map synRow := by
  have hwf := reachable_WF h
  unfold Err.toSyn
  split
  · rename_i h1
    cases hwf with
    | leaf k ls s => simp [intoVec, inheritSpan, synRow]
    | multi cs ls s h2 hall =>
        have := WF_multi_len (WF.multi cs ls s h2 hall)
        omega
  · rfl

theorem toSyn_length {e} (h : Reachable e) : e.toSyn.length = e.len := by
  rw [toSyn_rows h, List.length_map]; exact intoVecP_length [] none e

/-- the message of each diagnostic is the leaf's message: the bare kind message when the
    diagnostic is placed at the leaf's span, the full rendering (with path) otherwise -/
theorem synRow_leaf (k ls s) :
    synRow (Err.leaf k ls s) = match s with
      | some sp => (some sp, k.msg)
      | none => (none, render k ls) := by
  cases s <;> simp [synRow, Err.span, kindDisplay, display_leaf]

/-! ### into_iter is one level -/
theorem intoIter_leaf (k ls s) : (Err.leaf k ls s).intoIter = [Err.leaf k ls s] := rfl
theorem intoIter_multi (cs ls s) : (Err.multi cs ls s).intoIter = cs := rfl

/-! ### non-vacuity: a concrete reachable depth-3 tree on which everything above is exercised -/

def ex1 : Err := .multi [.leaf (.custom "a") ["x"] none,
                          .multi [.leaf (.missingField "f") [] none, .leaf (.tooFewItems 1) ["q"] none] ["m"] none] ["top"] none

example : Reachable ex1 := by
  have a : Reachable (.leaf (.custom "a") ["x"] none) := Reachable.at "x" (Reachable.new _)
  have f : Reachable (.leaf (.missingField "f") [] none) := Reachable.new _
  have q : Reachable (.leaf (.tooFewItems 1) ["q"] none) := Reachable.at "q" (Reachable.new _)
  have m0 : Reachable (.multi [.leaf (.missingField "f") [] none, .leaf (.tooFewItems 1) ["q"] none] [] none) :=
    Reachable.multiple (es := [_, _]) (by intro x hx; simp at hx; rcases hx with h | h <;> subst h <;> assumption) rfl
  have m : Reachable (.multi [.leaf (.missingField "f") [] none, .leaf (.tooFewItems 1) ["q"] none] ["m"] none) :=
    Reachable.at "m" m0
  have t0 := Reachable.multiple (es := [_, _]) (e := .multi [.leaf (.custom "a") ["x"] none,
      .multi [.leaf (.missingField "f") [] none, .leaf (.tooFewItems 1) ["q"] none] ["m"] none] [] none)
    (by intro x hx; simp at hx; rcases hx with h | h <;> subst h <;> assumption) rfl
  exact Reachable.at "top" t0

example : ex1.len = 3 := by decide
example : (leaves ex1).map (·.path) = [["top", "x"], ["top", "m"], ["top", "m", "q"]] := by decide

end C04
