import Darling.Props.C01
import Darling.Props.C08
import Darling.Derive.Env
/-
  C01 — an independent, declarative reading of the property text, and the proof that the model of
  the generated parser computes exactly it.

  The definitions of section 1 are written from the sentence of the property, clause by clause.
  They mention only: the fields of the receiver (effective name, converter, default source,
  value-for-absent, the options skip / multiple / flatten), the names of the items, and sub-lists
  of the input selected *by name*.  They do not mention the parser state, the match arm chosen by
  the generated `match`, "the first flatten field", or any step function of the model.
-/
open Derive

namespace C01
variable {ν : Type}

/-! ## 1. What the text says -/

/-- the name an item is written under -/
def nameOf (m : Meta) : String := m.path'.toStr

/-- a field that can be addressed by name: neither skipped nor the flatten field -/
def addressable (f : SField ν) : Bool := !f.skip && !f.flatten

/-- the receiver *knows* a name when it is the effective name of one of its addressable fields -/
def knows (r : SStruct ν) (n : String) : Bool := r.fields.any (fun f => addressable f && f.name == n)

/-- the items supplied under the effective name of `f`, in source order -/
def occurrences (f : SField ν) (items : List NestedMeta) : List Meta :=
  items.filterMap (fun it => match it with
    | .item m => if nameOf m = f.name then some m else none
    | .lit _ => none)

/-- the items whose names the receiver does not know, in source order -/
def strangers (r : SStruct ν) (items : List NestedMeta) : List NestedMeta :=
  items.filter (fun it => match it with
    | .item m => !knows r (nameOf m)
    | .lit _ => false)

def okVal : Outcome ν → Option ν
  | .ok v => some v
  | _ => none

/-- all of them, if all were accepted -/
def allOk : List (Outcome ν) → Option (List ν)
  | [] => some []
  | o :: os => match okVal o, allOk os with
      | some v, some vs => some (v :: vs)
      | _, _ => none

/-- "holds its own declared default, else the same-named field of the container-level default,
    else its type's value-for-absent" (a `multiple` field that is absent holds no occurrence) -/
def fallback (r : SStruct ν) (f : SField ν) : Option ν :=
  match f.dflt with
  | some (.value v) => some v
  | some .inherit => r.containerDefault.map (fun d => d f.ident)
  | none => if f.multiple then some (r.mkList []) else f.fromNone

/-- the values supplied under the effective name of `f`, each "converted by the field's type or
    custom converter and then by its map / and_then function" (`SField.conv` is that composition) -/
def supplied (f : SField ν) (items : List NestedMeta) : List (Outcome ν) :=
  (occurrences f items).map f.conv

/-- **what field `f` holds** after the input `items` -/
def holds (r : SStruct ν) (items : List NestedMeta) (f : SField ν) : Option ν :=
  if f.flatten then
    -- "names the receiver does not know are handed, in order, to its flatten field";
    -- with nothing to hand over the field "is not supplied" and "holds its own declared default"
    if (strangers r items).isEmpty && f.dflt.isSome then fallback r f
    else okVal (f.fromList (strangers r items))
  else if f.skip then fallback r f                       -- "or is skipped"
  else match supplied f items with
    | [] => fallback r f                                 -- "a field that is not supplied"
    | o :: os =>
        if f.multiple then (allOk (o :: os)).map r.mkList  -- "every occurrence in source order"
        else if os.isEmpty then okVal o                  -- "the value supplied under its effective name"
        else none

def allSome : List (String × Option ν) → Option (List (String × ν))
  | [] => some []
  | (k, o) :: rest => match o, allSome rest with
      | some v, some kvs => some ((k, v) :: kvs)
      | _, _ => none

/-- the whole receiver, field by field, in declaration order -/
def record (r : SStruct ν) (items : List NestedMeta) : Option (List (String × ν)) :=
  allSome (r.fields.map (fun f => (f.ident, holds r items f)))

/-- the flatten field may stay without input: nothing to hand over and a default declared -/
def flattenIdle (r : SStruct ν) (items : List NestedMeta) (f : SField ν) : Prop :=
  strangers r items = [] ∧ f.dflt.isSome = true

/-- **mistake-free** (the kinds of mistake are those of C02: bare literal, unknown name, repeated
    name, value the target rejects, required item absent) -/
structure MistakeFree (r : SStruct ν) (items : List NestedMeta) : Prop where
  noLiteral : ∀ it ∈ items, ∃ m, it = .item m
  noUnknown : strangers r items = [] ∨ (∃ f ∈ r.fields, f.flatten = true) ∨ r.allowUnknown = true
  noRepeat : ∀ f ∈ r.fields, addressable f = true → f.multiple = false → (occurrences f items).length ≤ 1
  accepted : ∀ f ∈ r.fields, addressable f = true → ∀ m ∈ occurrences f items, ∃ v, f.conv m = .ok v
  flattenAccepted : ∀ f ∈ r.fields, f.flatten = true →
    flattenIdle r items f ∨ ∃ v, f.fromList (strangers r items) = .ok v
  noneAbsent : ∀ f ∈ r.fields, f.flatten = false → f.multiple = false → f.dflt = none → f.fromNone = none →
    addressable f = true ∧ occurrences f items ≠ []

/-! ### what is assumed of the receiver -/

/-- what the derive macro guarantees of every receiver it emits code for (Rust: distinct field
    identifiers; `options/core.rs`: at most one `flatten` field; `input_field.rs`: `flatten`
    excludes `multiple`, a field inherits only from a declared container default) -/
structure Declared (r : SStruct ν) : Prop where
  identsDistinct : r.fields.Pairwise (fun f g => f.ident ≠ g.ident)
  oneFlatten : ∀ f ∈ r.fields, ∀ g ∈ r.fields, f.flatten = true → g.flatten = true → f = g
  flattenSingle : ∀ f ∈ r.fields, f.flatten = true → f.multiple = false
  inheritDeclared : ∀ f ∈ r.fields, f.dflt = some .inherit → r.containerDefault.isSome = true

/-- the external functions (converters of the field types, user functions) return -/
structure Returns (r : SStruct ν) : Prop where
  conv : ∀ f ∈ r.fields, ∀ m msg, f.conv m ≠ .panic msg
  list : ∀ f ∈ r.fields, ∀ items msg, f.fromList items ≠ .panic msg

/-! ### the two side conditions that exclude the discrepancies found (section 5) -/

/-- D1: no two addressable fields have the same effective name -/
def NamesDistinct (r : SStruct ν) : Prop :=
  ∀ f ∈ r.fields, ∀ g ∈ r.fields, addressable f = true → addressable g = true → f.name = g.name → f = g

/-- D2: a default declared for the flatten field is what its type makes of no items at all -/
def FlattenDefaultAgrees (r : SStruct ν) : Prop :=
  ∀ f ∈ r.fields, f.flatten = true → f.dflt.isSome = true → ∃ v, f.fromList [] = .ok v ∧ fallback r f = some v

/-- D2 does not arise when the flatten field has no default of its own and the container none -/
theorem flattenDefaultAgrees_of_no_default (r : SStruct ν)
    (h : ∀ f ∈ r.fields, f.flatten = true → f.dflt = none) : FlattenDefaultAgrees r := by
  intro f hf hfl hds
  rw [h f hf hfl] at hds
  cases hds

/-! ## 2. The model's selection by match arm is selection by name -/
open Spec.C02 Spec.C01

theorem ident_inj (r : SStruct ν) (hd : Declared r) :
    ∀ f ∈ r.fields, ∀ g ∈ r.fields, f.ident = g.ident → f = g := by
  have key : ∀ (l : List (SField ν)), l.Pairwise (fun f g => f.ident ≠ g.ident) →
      ∀ f ∈ l, ∀ g ∈ l, f.ident = g.ident → f = g := by
    intro l
    induction l with
    | nil => intro _ f hf; cases hf
    | cons x xs ih =>
        intro hp f hf g hg hk
        rw [List.pairwise_cons] at hp
        rcases List.mem_cons.mp hf with rfl | hf'
        · rcases List.mem_cons.mp hg with rfl | hg'
          · rfl
          · exact absurd hk (hp.1 g hg')
        · rcases List.mem_cons.mp hg with rfl | hg'
          · exact absurd hk.symm (hp.1 f hf')
          · exact ih hp.2 f hf' g hg' hk
  exact key r.fields hd.identsDistinct

theorem wf_of (r : SStruct ν) (hd : Declared r) (hr : Returns r) : C02.WF r :=
  ⟨ident_inj r hd, hr.conv, hr.list⟩

theorem arm_isSome (r : SStruct ν) (n : String) : (r.arm n).isSome = knows r n := by
  unfold SStruct.arm knows
  induction r.fields with
  | nil => rfl
  | cons x xs ih =>
      simp only [List.find?_cons, List.any_cons, addressable]
      cases h : (!x.skip && !x.flatten && x.name == n)
      · simp only [Bool.false_or]; exact ih
      · simp

theorem arm_of_addressable (r : SStruct ν) (hn : NamesDistinct r) (f : SField ν) (hf : f ∈ r.fields)
    (ha : addressable f = true) : r.arm f.name = some f := by
  cases h : r.arm f.name with
  | none =>
      exfalso
      unfold SStruct.arm at h
      have := List.find?_eq_none.mp h f hf
      simp only [addressable] at ha
      simp [ha] at this
  | some g =>
      obtain ⟨hg, hs, hfl, hname⟩ := C02.arm_mem r _ g h
      have : g = f := hn g hg f hf (by simp [addressable, hs, hfl]) ha hname
      rw [this]

/-- for a field of the receiver, "the item selects the field's match arm" is "the item is written
    under the field's effective name, and the field is addressable" -/
theorem selects_item (r : SStruct ν) (hd : Declared r) (hr : Returns r) (hn : NamesDistinct r)
    (f : SField ν) (hf : f ∈ r.fields) (m : Meta) :
    selects r f (.item m) = (addressable f && (nameOf m == f.name)) := by
  cases ha : addressable f with
  | false =>
      have : f.skip = true ∨ f.flatten = true := by
        simp only [addressable] at ha
        cases hs : f.skip <;> cases hfl : f.flatten <;> simp_all
      simpa using C02.not_selected_of_no_arm r (wf_of r hd hr) f hf this (.item m)
  | true =>
      simp only [Bool.true_and]
      cases hnm : (nameOf m == f.name) with
      | true =>
          have he : m.path'.toStr = f.name := by simpa [nameOf] using hnm
          simp [selects, he, arm_of_addressable r hn f hf ha]
      | false =>
          simp only [selects]
          cases harm : r.arm m.path'.toStr with
          | none => rfl
          | some g =>
              obtain ⟨hg, _, _, hname⟩ := C02.arm_mem r _ g harm
              cases hb : (g.ident == f.ident) with
              | false => simpa using hb
              | true =>
                  exfalso
                  have : g = f := ident_inj r hd g hg f hf (by simpa using hb)
                  subst this
                  simp [nameOf, hname] at hnm

/-! ### the positional quantities of `Spec.C02`, by name -/

theorem mem_occurrences (f : SField ν) (items : List NestedMeta) (m : Meta) :
    m ∈ occurrences f items ↔ NestedMeta.item m ∈ items ∧ nameOf m = f.name := by
  unfold occurrences
  rw [List.mem_filterMap]
  constructor
  · rintro ⟨it, hit, h⟩
    cases it with
    | lit l => simp at h
    | item m' =>
        by_cases hn : nameOf m' = f.name
        · simp [hn] at h; subst h; exact ⟨hit, hn⟩
        · simp [hn] at h
  · rintro ⟨hit, hn⟩
    exact ⟨.item m, hit, by simp [hn]⟩

theorem occurrences_append (f : SField ν) (xs ys : List NestedMeta) :
    occurrences f (xs ++ ys) = occurrences f xs ++ occurrences f ys := by
  simp [occurrences, List.filterMap_append]

theorem occurrences_cons_item (f : SField ν) (m : Meta) (xs : List NestedMeta) :
    occurrences f (.item m :: xs) = (if nameOf m = f.name then [m] else []) ++ occurrences f xs := by
  by_cases h : nameOf m = f.name <;> simp [occurrences, h]

theorem occurrences_cons_lit (f : SField ν) (l : Lit) (xs : List NestedMeta) :
    occurrences f (.lit l :: xs) = occurrences f xs := by
  simp [occurrences]

section byName
variable (r : SStruct ν) (f : SField ν)
variable (hsel : ∀ m, selects r f (.item m) = (nameOf m == f.name))
include hsel

theorem successes_by_name (items : List NestedMeta) :
    successes r f items = (occurrences f items).filterMap (fun m => okVal (f.conv m)) := by
  induction items with
  | nil => rfl
  | cons it rest ih =>
      cases it with
      | lit l =>
          rw [occurrences_cons_lit, ← ih]
          simp [successes]
      | item m =>
          rw [occurrences_cons_item, List.filterMap_append, ← ih]
          have hs := hsel m
          by_cases hn : nameOf m = f.name
          · have hs' : selects r f (.item m) = true := by rw [hs]; simpa using hn
            simp only [successes, List.filterMap_cons, hs', if_true, hn]
            cases f.conv m <;> simp [okVal]
          · have hs' : selects r f (.item m) = false := by rw [hs]; simpa using hn
            simp [successes, hs', hn]

theorem any_selects_by_name (items : List NestedMeta) :
    items.any (selects r f) = !(occurrences f items).isEmpty := by
  induction items with
  | nil => rfl
  | cons it rest ih =>
      cases it with
      | lit l => rw [occurrences_cons_lit, ← ih]; simp [selects]
      | item m =>
          rw [occurrences_cons_item, List.any_cons, ih, hsel m]
          by_cases hn : nameOf m = f.name <;> simp [hn]

theorem firstValue_by_name (items : List NestedMeta) :
    firstValue r f items = (match occurrences f items with
      | [] => none
      | m :: _ => okVal (f.conv m)) := by
  induction items with
  | nil => rfl
  | cons it rest ih =>
      cases it with
      | lit l =>
          rw [occurrences_cons_lit, ← ih]
          simp [firstValue, selects]
      | item m =>
          rw [occurrences_cons_item]
          by_cases hn : nameOf m = f.name
          · have hs' : selects r f (.item m) = true := by rw [hsel m]; simpa using hn
            simp only [firstValue, List.find?_cons, hs', hn, if_true, List.singleton_append]
            cases f.conv m <;> rfl
          · have hs' : selects r f (.item m) = false := by rw [hsel m]; simpa using hn
            simp only [hn, if_false, List.nil_append, ← ih]
            simp [firstValue, hs']

end byName

theorem hasFlatten_iff (r : SStruct ν) : r.hasFlatten = true ↔ ∃ f ∈ r.fields, f.flatten = true := by
  simp [SStruct.hasFlatten, List.any_eq_true]

theorem unclaimed_item (r : SStruct ν) (m : Meta) : unclaimed r (.item m) = !knows r (nameOf m) := by
  simp only [unclaimed, nameOf, ← arm_isSome]
  cases r.arm m.path'.toStr <;> rfl

/-- what the flatten field is handed is the list of strangers -/
theorem buffered_eq_strangers (r : SStruct ν) (h : r.hasFlatten = true) (items : List NestedMeta) :
    buffered r items = strangers r items := by
  simp only [buffered, h, if_true, strangers]
  congr 1
  funext it
  cases it with
  | lit l => rfl
  | item m => exact unclaimed_item r m

theorem mem_strangers (r : SStruct ν) (items : List NestedMeta) (m : Meta) :
    NestedMeta.item m ∈ strangers r items ↔ NestedMeta.item m ∈ items ∧ knows r (nameOf m) = false := by
  simp [strangers, List.mem_filter]

theorem find_flatten (r : SStruct ν) (hd : Declared r) (f : SField ν) (hf : f ∈ r.fields) (hfl : f.flatten = true) :
    r.fields.find? (·.flatten) = some f := by
  cases h : r.fields.find? (·.flatten) with
  | none => have := List.find?_eq_none.mp h f hf; simp [hfl] at this
  | some g =>
      have hg := List.mem_of_find?_eq_some h
      have hgf : g.flatten = true := by simpa using List.find?_some h
      rw [hd.oneFlatten g hg f hf hgf hfl]

theorem isFirstFlatten_eq (r : SStruct ν) (hd : Declared r) (f : SField ν) (hf : f ∈ r.fields) :
    isFirstFlatten r f = f.flatten := by
  cases hfl : f.flatten with
  | true => simp [isFirstFlatten, find_flatten r hd f hf hfl]
  | false =>
      unfold isFirstFlatten
      cases h : r.fields.find? (·.flatten) with
      | none => rfl
      | some g =>
          have hg := List.mem_of_find?_eq_some h
          have hgf : g.flatten = true := by simpa using List.find?_some h
          cases hb : (g.ident == f.ident) with
          | false => simpa using hb
          | true =>
              have : g = f := ident_inj r hd g hg f hf (by simpa using hb)
              rw [this, hfl] at hgf; cases hgf

theorem flattenResult_ok_iff (r : SStruct ν) (ff : SField ν) (items : List NestedMeta) (v : ν) :
    flattenResult r ff items = .ok v ↔ ff.fromList (buffered r items) = .ok v := by
  unfold flattenResult
  split
  · rfl
  · cases ff.fromList (buffered r items) <;> simp [Outcome.mapErr]

/-! ### mistakes, by name -/

theorem loopMistakes_nil_iff (r : SStruct ν) (e items : List NestedMeta) :
    loopMistakes r e items = [] ↔
      ∀ pre it post, items = pre ++ it :: post → itemMistakes r (e ++ pre) it = [] := by
  induction items generalizing e with
  | nil =>
      simp only [loopMistakes, true_iff]
      intro pre it post h
      cases pre <;> cases h
  | cons x xs ih =>
      simp only [loopMistakes, List.append_eq_nil_iff, ih]
      constructor
      · rintro ⟨h1, h2⟩ pre it post hsplit
        cases pre with
        | nil =>
            simp only [List.nil_append, List.cons.injEq] at hsplit
            obtain ⟨rfl, rfl⟩ := hsplit
            simpa using h1
        | cons p pre' =>
            simp only [List.cons_append, List.cons.injEq] at hsplit
            obtain ⟨rfl, rfl⟩ := hsplit
            have := h2 pre' it post rfl
            simpa [List.append_assoc] using this
      · intro h
        refine ⟨by simpa using h [] x xs rfl, fun pre it post hs => ?_⟩
        have := h (x :: pre) it post (by simp [hs])
        simpa [List.append_assoc] using this

theorem itemMistakes_item_nil_iff (r : SStruct ν) (hr : Returns r) (pre : List NestedMeta) (m : Meta) :
    itemMistakes r pre (.item m) = [] ↔
      (match r.arm (nameOf m) with
       | some f => (∃ v, f.conv m = .ok v) ∧ (f.multiple = false → pre.any (selects r f) = false)
       | none => (r.hasFlatten || r.allowUnknown) = true) := by
  simp only [itemMistakes, nameOf]
  cases harm : r.arm m.path'.toStr with
  | none =>
      simp only
      cases (r.hasFlatten || r.allowUnknown) <;> simp
  | some f =>
      have hf := (C02.arm_mem r _ f harm).1
      simp only
      cases hm : f.multiple with
      | true =>
          simp only [if_true]
          cases hc : f.conv m with
          | ok v => simp
          | err e => simp
          | panic p => exact absurd hc (hr.conv f hf m p)
      | false =>
          simp only [Bool.false_eq_true, if_false]
          cases ha : pre.any (selects r f) with
          | true => simp
          | false =>
              simp only [Bool.false_eq_true, if_false]
              cases hc : f.conv m with
              | ok v => simp
              | err e => simp
              | panic p => exact absurd hc (hr.conv f hf m p)

/-- if every occurrence of a name is preceded by no occurrence of it, there is at most one -/
theorem occurrences_le_one (f : SField ν) (items : List NestedMeta)
    (h : ∀ pre m post, items = pre ++ .item m :: post → nameOf m = f.name → occurrences f pre = []) :
    (occurrences f items).length ≤ 1 := by
  induction items with
  | nil => simp [occurrences]
  | cons x xs ih =>
      have hxs : ∀ pre m post, xs = pre ++ .item m :: post → nameOf m = f.name → occurrences f pre = [] := by
        intro pre m post hs hn
        have := h (x :: pre) m post (by simp [hs]) hn
        have happ : occurrences f (x :: pre) = occurrences f [x] ++ occurrences f pre := by
          rw [← occurrences_append]; rfl
        rw [happ, List.append_eq_nil_iff] at this
        exact this.2
      have ihx := ih hxs
      cases x with
      | lit l => rw [occurrences_cons_lit]; exact ihx
      | item m0 =>
          rw [occurrences_cons_item]
          by_cases hn0 : nameOf m0 = f.name
          · have hnil : occurrences f xs = [] := by
              cases hocc : occurrences f xs with
              | nil => rfl
              | cons m1 rest =>
                  exfalso
                  have hm1 : m1 ∈ occurrences f xs := by rw [hocc]; simp
                  obtain ⟨hin, hn1⟩ := (mem_occurrences f xs m1).mp hm1
                  obtain ⟨pre, post, hs⟩ := List.append_of_mem hin
                  have := h (.item m0 :: pre) m1 post (by simp [hs]) hn1
                  rw [occurrences_cons_item] at this
                  simp [hn0] at this
            simp [hn0, hnil]
          · simpa [hn0] using ihx

section main
variable (r : SStruct ν) (hd : Declared r) (hr : Returns r) (hn : NamesDistinct r)
include hd hr hn

theorem selects_addr (f : SField ν) (hf : f ∈ r.fields) (ha : addressable f = true) (m : Meta) :
    selects r f (.item m) = (nameOf m == f.name) := by
  rw [selects_item r hd hr hn f hf m, ha, Bool.true_and]

theorem selects_nonaddr (f : SField ν) (hf : f ∈ r.fields) (ha : addressable f = false) (it : NestedMeta) :
    selects r f it = false := by
  cases it with
  | lit l => rfl
  | item m => rw [selects_item r hd hr hn f hf m, ha, Bool.false_and]

omit hd hr in
theorem arm_of_item (f : SField ν) (hf : f ∈ r.fields) (ha : addressable f = true) (m : Meta)
    (hname : nameOf m = f.name) : r.arm (nameOf m) = some f := by
  rw [hname]; exact arm_of_addressable r hn f hf ha

/-- the item-level mistakes (`Spec.C02.loopMistakes`) are absent exactly when: no bare literal, no
    unknown name (unless forwarded or ignored), no repeated name, no rejected value -/
theorem loop_nil_iff (items : List NestedMeta) :
    loopMistakes r [] items = [] ↔
      (∀ it ∈ items, ∃ m, it = .item m) ∧
      (strangers r items = [] ∨ (∃ f ∈ r.fields, f.flatten = true) ∨ r.allowUnknown = true) ∧
      (∀ f ∈ r.fields, addressable f = true → f.multiple = false → (occurrences f items).length ≤ 1) ∧
      (∀ f ∈ r.fields, addressable f = true → ∀ m ∈ occurrences f items, ∃ v, f.conv m = .ok v) := by
  rw [loopMistakes_nil_iff]
  simp only [List.nil_append]
  constructor
  · intro H
    have Hitem : ∀ pre m post, items = pre ++ .item m :: post →
        (match r.arm (nameOf m) with
         | some f => (∃ v, f.conv m = .ok v) ∧ (f.multiple = false → pre.any (selects r f) = false)
         | none => (r.hasFlatten || r.allowUnknown) = true) :=
      fun pre m post hs => (itemMistakes_item_nil_iff r hr pre m).mp (H pre _ post hs)
    refine ⟨?_, ?_, ?_, ?_⟩
    · intro it hit
      obtain ⟨pre, post, hs⟩ := List.append_of_mem hit
      have := H pre it post hs
      cases it with
      | item m => exact ⟨m, rfl⟩
      | lit l => simp [itemMistakes] at this
    · cases hst : strangers r items with
      | nil => exact Or.inl rfl
      | cons s rest =>
          right
          have hs : s ∈ strangers r items := by rw [hst]; simp
          cases s with
          | lit l => simp [strangers, List.mem_filter] at hs
          | item m =>
              obtain ⟨hin, hk⟩ := (mem_strangers r items m).mp hs
              obtain ⟨pre, post, hsp⟩ := List.append_of_mem hin
              have := Hitem pre m post hsp
              have harm : r.arm (nameOf m) = none := by
                have := arm_isSome r (nameOf m)
                rw [hk] at this
                cases h : r.arm (nameOf m) with
                | none => rfl
                | some g => rw [h] at this; cases this
              rw [harm] at this
              simp only [Bool.or_eq_true] at this
              rcases this with h | h
              · exact Or.inl ((hasFlatten_iff r).mp h)
              · exact Or.inr h
    · intro f hf ha hm
      apply occurrences_le_one
      intro pre m post hs hname
      have := Hitem pre m post hs
      rw [arm_of_item r hn f hf ha m hname] at this
      have hany := this.2 hm
      rw [any_selects_by_name r f (selects_addr r hd hr hn f hf ha) pre] at hany
      cases hocc : occurrences f pre with
      | nil => rfl
      | cons a b => rw [hocc] at hany; simp at hany
    · intro f hf ha m hm
      obtain ⟨hin, hname⟩ := (mem_occurrences f items m).mp hm
      obtain ⟨pre, post, hs⟩ := List.append_of_mem hin
      have := Hitem pre m post hs
      rw [arm_of_item r hn f hf ha m hname] at this
      exact this.1
  · rintro ⟨h1, h2, h3, h4⟩ pre it post hs
    have hit : it ∈ items := by rw [hs]; simp
    obtain ⟨m, rfl⟩ := h1 it hit
    rw [itemMistakes_item_nil_iff r hr pre m]
    cases harm : r.arm (nameOf m) with
    | some f =>
        obtain ⟨hf, hsk, hfl, hname⟩ := C02.arm_mem r _ f harm
        have ha : addressable f = true := by simp [addressable, hsk, hfl]
        have hm : m ∈ occurrences f items := (mem_occurrences f items m).mpr ⟨hit, hname.symm⟩
        refine ⟨h4 f hf ha m hm, fun hmul => ?_⟩
        have hlen := h3 f hf ha hmul
        rw [hs, occurrences_append, occurrences_cons_item] at hlen
        have hname' : nameOf m = f.name := hname.symm
        simp only [hname', if_true, List.length_append, List.length_cons, List.length_nil] at hlen
        have hz : (occurrences f pre).length = 0 := by omega
        rw [any_selects_by_name r f (selects_addr r hd hr hn f hf ha) pre]
        rw [List.length_eq_zero_iff] at hz
        rw [hz]; rfl
    | none =>
        simp only
        have hk : knows r (nameOf m) = false := by
          have := arm_isSome r (nameOf m)
          rw [harm] at this
          exact this.symm
        have hstr : NestedMeta.item m ∈ strangers r items := (mem_strangers r items m).mpr ⟨hit, hk⟩
        rcases h2 with h | h | h
        · rw [h] at hstr; cases hstr
        · simp [(hasFlatten_iff r).mpr h]
        · simp [h]

omit hn in
/-- the flatten member's verdict -/
theorem flatten_nil_iff (items : List NestedMeta) :
    flattenMistakes r items = [] ↔
      ∀ f ∈ r.fields, f.flatten = true → ∃ v, f.fromList (strangers r items) = .ok v := by
  unfold flattenMistakes
  cases hff : r.fields.find? (·.flatten) with
  | none =>
      simp only [true_iff]
      intro f hf hfl
      have := List.find?_eq_none.mp hff f hf
      simp [hfl] at this
  | some ff =>
      have hffm := List.mem_of_find?_eq_some hff
      have hffl : ff.flatten = true := by simpa using List.find?_some hff
      have hhas : r.hasFlatten = true := (hasFlatten_iff r).mpr ⟨ff, hffm, hffl⟩
      simp only
      constructor
      · intro h f hf hfl
        have : f = ff := hd.oneFlatten f hf ff hffm hfl hffl
        subst this
        cases hres : flattenResult r f items with
        | ok v =>
            rw [flattenResult_ok_iff, buffered_eq_strangers r hhas] at hres
            exact ⟨v, hres⟩
        | err e => rw [hres] at h; simp at h
        | panic p =>
            exfalso
            unfold flattenResult at hres
            split at hres
            · exact hr.list f hf _ p hres
            · cases hl : f.fromList (buffered r items) with
              | panic q => exact hr.list f hf _ q hl
              | ok v => simp [hl, Outcome.mapErr] at hres
              | err e => simp [hl, Outcome.mapErr] at hres
      · intro h
        obtain ⟨v, hv⟩ := h ff hffm hffl
        rw [← buffered_eq_strangers r hhas, ← flattenResult_ok_iff] at hv
        rw [hv]

/-- the presence check -/
theorem missing_nil_iff (items : List NestedMeta) :
    missing r items = [] ↔
      ∀ f ∈ r.fields, f.flatten = false → f.multiple = false → f.dflt = none → f.fromNone = none →
        addressable f = true ∧ occurrences f items ≠ [] := by
  unfold missing
  rw [List.filterMap_eq_nil_iff]
  constructor
  · intro h f hf hfl hm hdf hfn
    have := h f hf
    rw [isFirstFlatten_eq r hd f hf, hfl, hm, hdf, hfn] at this
    cases ha : addressable f with
    | false =>
        exfalso
        have hany : items.any (selects r f) = false := by
          rw [List.any_eq_false]; intro it _; simp [selects_nonaddr r hd hr hn f hf ha it]
        simp [hany] at this
    | true =>
        refine ⟨rfl, ?_⟩
        rw [any_selects_by_name r f (selects_addr r hd hr hn f hf ha) items] at this
        intro hnil
        rw [hnil] at this
        simp at this
  · intro h f hf
    rw [isFirstFlatten_eq r hd f hf]
    cases hfl : f.flatten with
    | true => simp
    | false =>
      cases hm : f.multiple with
      | true => simp
      | false =>
        cases hdf : f.dflt with
        | some d => simp
        | none =>
          cases hfn : f.fromNone with
          | some v => simp
          | none =>
              obtain ⟨ha, hocc⟩ := h f hf hfl hm hdf hfn
              rw [any_selects_by_name r f (selects_addr r hd hr hn f hf ha) items]
              cases ho : occurrences f items with
              | nil => exact absurd ho hocc
              | cons a b => simp

end main

/-! ## 3. `MistakeFree` is "no mistake in the sense of C02" -/

theorem mistakeFree_iff (r : SStruct ν) (hd : Declared r) (hr : Returns r) (hn : NamesDistinct r)
    (hfa : FlattenDefaultAgrees r) (items : List NestedMeta) :
    MistakeFree r items ↔ mistakes r items = [] := by
  unfold mistakes
  simp only [List.append_eq_nil_iff]
  rw [loop_nil_iff r hd hr hn, flatten_nil_iff r hd hr, missing_nil_iff r hd hr hn]
  constructor
  · intro h
    refine ⟨⟨⟨h.noLiteral, h.noUnknown, h.noRepeat, h.accepted⟩, ?_⟩, h.noneAbsent⟩
    intro f hf hfl
    rcases h.flattenAccepted f hf hfl with ⟨hs, hdf⟩ | h
    · obtain ⟨v, hv, _⟩ := hfa f hf hfl hdf
      exact ⟨v, by rw [hs]; exact hv⟩
    · exact h
  · rintro ⟨⟨⟨h1, h2, h3, h4⟩, h5⟩, h6⟩
    exact ⟨h1, h2, h3, h4, fun f hf hfl => Or.inr (h5 f hf hfl), h6⟩

/-! ## 4. Every field holds what the text says -/

theorem allOk_accepted (conv : Meta → Outcome ν) (ms : List Meta) (h : ∀ m ∈ ms, ∃ v, conv m = .ok v) :
    allOk (ms.map conv) = some (ms.filterMap (fun m => okVal (conv m))) := by
  induction ms with
  | nil => rfl
  | cons m ms ih =>
      obtain ⟨v, hv⟩ := h m (by simp)
      have := ih (fun x hx => h x (by simp [hx]))
      simp only [List.map_cons, allOk, this, hv, okVal, List.filterMap_cons]

theorem default_fallback (r : SStruct ν) (hd : Declared r) (f : SField ν) (hf : f ∈ r.fields) (d : DefaultSrc ν)
    (hdf : f.dflt = some d) : ∃ v, fallback r f = some v ∧ defaultOf r f d = .ok v := by
  cases d with
  | value v => exact ⟨v, by simp [fallback, hdf], rfl⟩
  | inherit =>
      have := hd.inheritDeclared f hf hdf
      cases hc : r.containerDefault with
      | none => rw [hc] at this; cases this
      | some cd => exact ⟨cd f.ident, by simp [fallback, hdf, hc], by simp [defaultOf, hc]⟩

theorem field_holds (r : SStruct ν) (hd : Declared r) (hr : Returns r) (hn : NamesDistinct r)
    (hfa : FlattenDefaultAgrees r) (items : List NestedMeta) (hmf : MistakeFree r items)
    (f : SField ν) (hf : f ∈ r.fields) :
    ∃ v, holds r items f = some v ∧ fieldValue r items f = .ok v := by
  cases hfl : f.flatten with
  | true =>
      have hm := hd.flattenSingle f hf hfl
      have hhas : r.hasFlatten = true := (hasFlatten_iff r).mpr ⟨f, hf, hfl⟩
      have hfv : ∀ v, f.fromList (strangers r items) = .ok v → fieldValue r items f = .ok v := by
        intro v hv
        have : flattenValue r items = some v := by
          simp only [flattenValue, find_flatten r hd f hf hfl]
          rw [← buffered_eq_strangers r hhas, ← flattenResult_ok_iff] at hv
          rw [hv]
        simp [fieldValue, hm, isFirstFlatten_eq r hd f hf, hfl, this]
      simp only [holds, hfl, if_true]
      cases hc : ((strangers r items).isEmpty && f.dflt.isSome) with
      | true =>
          simp only [Bool.and_eq_true, List.isEmpty_iff] at hc
          obtain ⟨v, hv, hfb⟩ := hfa f hf hfl hc.2
          exact ⟨v, by simpa using hfb, hfv v (by rw [hc.1]; exact hv)⟩
      | false =>
          rcases hmf.flattenAccepted f hf hfl with ⟨hs, hdf⟩ | ⟨v, hv⟩
          · simp [hs, hdf] at hc
          · exact ⟨v, by simp [hv, okVal], hfv v hv⟩
  | false =>
      have hiff : isFirstFlatten r f = false := by rw [isFirstFlatten_eq r hd f hf, hfl]
      cases ha : addressable f with
      | false =>
          have hsk : f.skip = true := by
            simp only [addressable, hfl] at ha
            cases hs : f.skip <;> simp_all
          have hsel := selects_nonaddr r hd hr hn f hf ha
          have hsucc : successes r f items = [] := C02.successes_unselected r f items hsel
          have hany : items.any (selects r f) = false := by
            rw [List.any_eq_false]; intro it _; simp [hsel it]
          have hfirst : firstValue r f items = none := C02.firstValue_unselected r f items hany
          simp only [holds, hfl, hsk, Bool.false_eq_true, if_false, if_true]
          cases hdf : f.dflt with
          | some d =>
              obtain ⟨v, hv, hdv⟩ := default_fallback r hd f hf d hdf
              refine ⟨v, hv, ?_⟩
              cases hm : f.multiple <;> simp [fieldValue, hm, hdf, hsucc, hiff, hfirst, hdv]
          | none =>
              cases hm : f.multiple with
              | true => exact ⟨r.mkList [], by simp [fallback, hdf, hm], by simp [fieldValue, hm, hdf, hsucc]⟩
              | false =>
                  cases hfn : f.fromNone with
                  | none =>
                      have := (hmf.noneAbsent f hf hfl hm hdf hfn).1
                      rw [ha] at this; cases this
                  | some v => exact ⟨v, by simp [fallback, hdf, hm, hfn], by simp [fieldValue, hm, hdf, hiff, hfirst, hfn]⟩
      | true =>
          have hsk : f.skip = false := by
            simp only [addressable, hfl] at ha
            cases hs : f.skip <;> simp_all
          have hsel := selects_addr r hd hr hn f hf ha
          have hacc := hmf.accepted f hf ha
          simp only [holds, hfl, hsk, Bool.false_eq_true, if_false, supplied]
          cases hm : f.multiple with
          | true =>
              have hsucc := successes_by_name r f hsel items
              cases hocc : occurrences f items with
              | nil =>
                  rw [hocc] at hsucc
                  simp only [List.map_nil]
                  cases hdf : f.dflt with
                  | some d =>
                      obtain ⟨v, hv, hdv⟩ := default_fallback r hd f hf d hdf
                      exact ⟨v, hv, by simp [fieldValue, hm, hdf, hsucc, hdv]⟩
                  | none => exact ⟨r.mkList [], by simp [fallback, hdf, hm], by simp [fieldValue, hm, hdf, hsucc]⟩
              | cons m ms =>
                  have hall := allOk_accepted f.conv (m :: ms) (by rw [← hocc]; exact hacc)
                  obtain ⟨v, hv⟩ := hacc m (by rw [hocc]; simp)
                  rw [hocc] at hsucc
                  have hne : successes r f items = v :: ms.filterMap (fun m => okVal (f.conv m)) := by
                    rw [hsucc]; simp [hv, okVal]
                  refine ⟨r.mkList (successes r f items), ?_, ?_⟩
                  · simp only [List.map_cons, if_true] at hall ⊢
                    rw [hall, hsucc]; rfl
                  · cases hdf : f.dflt <;> simp [fieldValue, hm, hdf, hne]
          | false =>
              have hfirst := firstValue_by_name r f hsel items
              have hlen := hmf.noRepeat f hf ha hm
              cases hocc : occurrences f items with
              | nil =>
                  rw [hocc] at hfirst
                  simp only [List.map_nil]
                  cases hdf : f.dflt with
                  | some d =>
                      obtain ⟨v, hv, hdv⟩ := default_fallback r hd f hf d hdf
                      exact ⟨v, hv, by simp [fieldValue, hm, hdf, hiff, hfirst, hdv]⟩
                  | none =>
                      cases hfn : f.fromNone with
                      | none => exact absurd hocc (hmf.noneAbsent f hf hfl hm hdf hfn).2
                      | some v => exact ⟨v, by simp [fallback, hdf, hm, hfn], by simp [fieldValue, hm, hdf, hiff, hfirst, hfn]⟩
              | cons m ms =>
                  rw [hocc] at hlen hfirst
                  have hms : ms = [] := by
                    cases ms with
                    | nil => rfl
                    | cons a b => simp at hlen
                  subst hms
                  obtain ⟨v, hv⟩ := hacc m (by rw [hocc]; simp)
                  simp only [hv, okVal] at hfirst
                  exact ⟨v, by simp [hv, okVal], by simp [fieldValue, hm, hiff, hfirst]⟩

theorem collect_allSome (g : SField ν → Outcome ν) (h : SField ν → Option ν) (fs : List (SField ν))
    (hall : ∀ f ∈ fs, ∃ v, h f = some v ∧ g f = .ok v) :
    ∃ kvs, allSome (fs.map (fun f => (f.ident, h f))) = some kvs ∧
      collect (fs.map (fun f => (f.ident, g f))) = .ok kvs := by
  induction fs with
  | nil => exact ⟨[], rfl, rfl⟩
  | cons f fs ih =>
      obtain ⟨kvs, h1, h2⟩ := ih (fun x hx => hall x (by simp [hx]))
      obtain ⟨v, hv, hg⟩ := hall f (by simp)
      exact ⟨(f.ident, v) :: kvs, by simp [allSome, hv, h1], by simp [collect, hg, h2, Outcome.map]⟩

/-- **C01, end to end** (derived `from_list` of a struct receiver).  For a mistake-free input,
    every field holds what the text says (`record` succeeds) and parsing returns the struct built
    from exactly these values (passed through the container-level map / and_then).
    `_partial`: under the side conditions `NamesDistinct` and `FlattenDefaultAgrees`, which exclude
    the discrepancies D1 and D2 of section 5. -/
theorem fromList_eq_record_partial (r : SStruct ν) (hd : Declared r) (hr : Returns r)
    (hn : NamesDistinct r) (hfa : FlattenDefaultAgrees r) (items : List NestedMeta)
    (hmf : MistakeFree r items) :
    ∃ kvs, record r items = some kvs ∧ fromList r items = r.post (r.build kvs) := by
  have hmis := (mistakeFree_iff r hd hr hn hfa items).mp hmf
  have hwf := wf_of r hd hr
  obtain ⟨kvs, h1, h2⟩ := collect_allSome (fieldValue r items) (holds r items) r.fields
    (fun f hf => field_holds r hd hr hn hfa items hmf f hf)
  refine ⟨kvs, h1, ?_⟩
  rw [C02.fromList_value r hwf hd.identsDistinct items hmis]
  simp [expected, h2]

/-- "parsing succeeds" (a receiver without a fallible container-level transform) -/
theorem fromList_succeeds_partial (r : SStruct ν) (hd : Declared r) (hr : Returns r)
    (hn : NamesDistinct r) (hfa : FlattenDefaultAgrees r) (hpost : r.post = .ok) (items : List NestedMeta)
    (hmf : MistakeFree r items) :
    ∃ kvs, record r items = some kvs ∧ fromList r items = .ok (r.build kvs) := by
  obtain ⟨kvs, h1, h2⟩ := fromList_eq_record_partial r hd hr hn hfa items hmf
  exact ⟨kvs, h1, by rw [h2, hpost]⟩

/-- … and only then: an input that is not mistake-free is refused -/
theorem fromList_refuses_partial (r : SStruct ν) (hd : Declared r) (hr : Returns r)
    (hn : NamesDistinct r) (hfa : FlattenDefaultAgrees r) (items : List NestedMeta)
    (hmf : ¬ MistakeFree r items) : ∃ e, fromList r items = .err e := by
  have hmis : mistakes r items ≠ [] := fun h => hmf ((mistakeFree_iff r hd hr hn hfa items).mpr h)
  exact C02.fails_when_mistaken r (wf_of r hd hr) hd.identsDistinct items hmis

/-! ### "nothing else in the input influences any field"

  By construction `holds r items f` reads the input only through `occurrences f items` (an
  addressable field) or `strangers r items` (the flatten field); the theorems say what that means
  for the items of the input. -/

theorem holds_named_only (r : SStruct ν) (items items' : List NestedMeta) (f : SField ν) (hfl : f.flatten = false)
    (h : occurrences f items = occurrences f items') : holds r items f = holds r items' f := by
  simp only [holds, hfl, supplied, h, Bool.false_eq_true, if_false]

theorem holds_flatten_only (r : SStruct ν) (items items' : List NestedMeta) (f : SField ν) (hfl : f.flatten = true)
    (h : strangers r items = strangers r items') : holds r items f = holds r items' f := by
  simp only [holds, hfl, h, if_true]

/-- an item under another name, anywhere, does not touch the field -/
theorem occurrences_insert_other (f : SField ν) (pre post : List NestedMeta) (m : Meta) (hne : nameOf m ≠ f.name) :
    occurrences f (pre ++ .item m :: post) = occurrences f (pre ++ post) := by
  rw [occurrences_append, occurrences_cons_item, occurrences_append]; simp [hne]

/-- two neighbours under different names may change places -/
theorem occurrences_swap (f : SField ν) (pre post : List NestedMeta) (a b : Meta) (hne : nameOf a ≠ nameOf b) :
    occurrences f (pre ++ .item a :: .item b :: post) = occurrences f (pre ++ .item b :: .item a :: post) := by
  simp only [occurrences_append, occurrences_cons_item]
  by_cases ha : nameOf a = f.name
  · have hb : nameOf b ≠ f.name := fun hb => hne (ha.trans hb.symm)
    simp [ha, hb]
  · simp [ha]

/-- an item under a known name, anywhere, does not touch what the flatten field is handed -/
theorem strangers_insert_known (r : SStruct ν) (pre post : List NestedMeta) (m : Meta) (hk : knows r (nameOf m) = true) :
    strangers r (pre ++ .item m :: post) = strangers r (pre ++ post) := by
  simp [strangers, List.filter_append, hk]

theorem strangers_swap_known (r : SStruct ν) (pre post : List NestedMeta) (a : Meta) (b : NestedMeta)
    (hk : knows r (nameOf a) = true) :
    strangers r (pre ++ .item a :: b :: post) = strangers r (pre ++ b :: .item a :: post) := by
  simp [strangers, List.filter_append, List.filter_cons, hk]

theorem record_congr (r : SStruct ν) (items items' : List NestedMeta)
    (h : ∀ f ∈ r.fields, holds r items f = holds r items' f) : record r items = record r items' := by
  unfold record
  congr 1
  exact List.map_congr_left (fun f hf => by rw [h f hf])

/-- the parser itself: two mistake-free inputs that agree, name by name, on the items under each
    field's effective name and on the unknown items give the same result -/
theorem fromList_congr_partial (r : SStruct ν) (hd : Declared r) (hr : Returns r)
    (hn : NamesDistinct r) (hfa : FlattenDefaultAgrees r) (items items' : List NestedMeta)
    (hmf : MistakeFree r items) (hmf' : MistakeFree r items')
    (hocc : ∀ f ∈ r.fields, occurrences f items = occurrences f items')
    (hstr : strangers r items = strangers r items') : fromList r items = fromList r items' := by
  obtain ⟨kvs, h1, h2⟩ := fromList_eq_record_partial r hd hr hn hfa items hmf
  obtain ⟨kvs', h1', h2'⟩ := fromList_eq_record_partial r hd hr hn hfa items' hmf'
  have : record r items = record r items' := by
    apply record_congr
    intro f hf
    cases hfl : f.flatten with
    | true => exact holds_flatten_only r items items' f hfl hstr
    | false => exact holds_named_only r items items' f hfl (hocc f hf)
  rw [this, h1'] at h1
  cases h1
  rw [h2, h2']

/-! ### the element-level traits (`FromDeriveInput`, `FromField`, `FromVariant`, `FromTypeParam`,
    `FromAttributes`): the ordinary fields of the struct literal are the same record -/

theorem finishChecked_eq_record_partial (so : SOuter ν) (hd : Declared so.fields) (hr : Returns so.fields)
    (hn : NamesDistinct so.fields) (hfa : FlattenDefaultAgrees so.fields) (items : List NestedMeta)
    (hmf : MistakeFree so.fields items) (p : PState ν) (hp : coreLoop so.fields {} items = .ok p)
    (av : Option ν) (late : List (String × Outcome ν)) (early : List (String × ν))
    (build : List (String × ν) → ν) :
    ∃ kvs, record so.fields items = some kvs ∧
      ∀ a l, attrsPart so av = .ok a → lateValues late = .ok l →
        finishChecked so p av late early build = so.fields.post (build (early ++ a ++ l ++ kvs)) := by
  have hmis := (mistakeFree_iff so.fields hd hr hn hfa items).mp hmf
  have hwf := wf_of so.fields hd hr
  obtain ⟨kvs, h1, h2⟩ := collect_allSome (fieldValue so.fields items) (holds so.fields items) so.fields.fields
    (fun f hf => field_holds so.fields hd hr hn hfa items hmf f hf)
  obtain ⟨st0, st1, h0, hfi, herrs, hslots⟩ := C02.before_check so.fields hwf hd.identsDistinct items
  rw [hp] at h0
  cases h0
  refine ⟨kvs, h1, fun a l ha hl => ?_⟩
  unfold finishChecked
  rw [hfi]
  simp only
  rw [herrs, hmis]
  simp only [assemble, ha, hl]
  rw [C02.initFields_eq so.fields hwf items hmis _ hslots so.fields.fields (fun _ h => h), h2]

/-- **C01 for the element-level traits.**  Whatever the split of the items over the element's
    attributes (`C08.selItems` is their concatenation in source order), with a mistake-free item
    list and a well-behaved `attrs` member, the extractor succeeds and the struct literal is
    built from the pass-through members, the `attrs` member, the body members and exactly
    `record` for the ordinary fields. -/
theorem outer_eq_record_partial (so : SOuter ν) (hd : Declared so.fields) (hr : Returns so.fields)
    (hn : NamesDistinct so.fields) (hfa : FlattenDefaultAgrees so.fields) (attrs : List Attr)
    (hall : C08.AllParse so attrs) (hmf : MistakeFree so.fields (C08.selItems so attrs))
    (hav : ∀ mk, so.attrsField = some mk → ∃ v, mk (attrs.filter (C08.forwardedBy so)) = .ok v) :
    ∃ p av kvs, extract so attrs = .ok (p, av) ∧ record so.fields (C08.selItems so attrs) = some kvs ∧
      ∀ late early build a l, attrsPart so av = .ok a → lateValues late = .ok l →
        finishOuter so p av (.ok ()) late early build = so.fields.post (build (early ++ a ++ l ++ kvs)) := by
  obtain ⟨p, hp, _⟩ := C02.coreLoop_spec so.fields (wf_of so.fields hd hr) (C08.selItems so attrs)
  have hex : ∃ av, extract so attrs = .ok (p, av) := by
    rw [C08.walk_is_one_list so attrs hall, hp]
    simp only [attrsValue]
    cases hmk : so.attrsField with
    | none => exact ⟨none, rfl⟩
    | some mk =>
        obtain ⟨v, hv⟩ := hav mk hmk
        exact ⟨some v, by simp [hv]⟩
  obtain ⟨av, hav'⟩ := hex
  obtain ⟨kvs, h1, _⟩ := fromList_eq_record_partial so.fields hd hr hn hfa _ hmf
  refine ⟨p, av, kvs, hav', h1, fun late early build a l ha hl => ?_⟩
  obtain ⟨kvs', h1', h2'⟩ := finishChecked_eq_record_partial so hd hr hn hfa _ hmf p hp av late early build
  rw [h1] at h1'
  cases h1'
  simp only [finishOuter]
  exact h2' a l ha hl

/-! ## 4c. From the declaration to the receiver (`Options.resolveField`, `Env.semField`, `Env.semStruct`) -/
section decl
open Options

theorem semField_ident' (env : Env.T) (rh : String → Hooks Val) (f : RField) :
    (Env.semField env rh f).ident = f.ident := rfl

theorem semStruct_fields' (env : Env.T) (rh : String → Hooks Val) (core : RCore) (fields : List RField)
    (build : List (String × Val) → Val) :
    (Env.semStruct env rh core fields build).fields = fields.map (Env.semField env rh) := rfl

theorem skipped_default_aux (env : Env.T) (ty : Ty) (sk : Option (Bool × Option Span)) :
    Option.map (fun d => match d with
        | DefaultExpr.inherit => DefaultSrc.inherit
        | DefaultExpr.explicit p => DefaultSrc.value ((env.oracle.val? ("fn:" ++ p)).getD Val.unit)
        | DefaultExpr.trait_ _ => DefaultSrc.value (Env.defaultOf env.oracle ty))
      (fieldDefault none none sk) =
    (if skipTrue { skip := sk } then some (.value (Env.defaultOf env.oracle ty)) else none) := by
  cases sk with
  | none => rfl
  | some bs =>
      obtain ⟨b, sp⟩ := bs
      cases b <;> rfl

/-- "its own declared default, else the same-named field of the container-level default, else its
    type's value-for-absent" — as resolved from the options written on the declaration: `own` is
    the field's `default` option (`Default` trait or a function path), `core.dflt` the container's.
    The last line is where a *skipped* field differs from a field that is merely not supplied: its
    value-for-absent is `Default::default()`, not `FromMeta::from_none()`. -/
theorem declared_default_chain (env : Env.T) (rh : String → Hooks Val) (core : CoreOpts) (ident : String) (ty : Ty)
    (s : FieldOpts) (rf : RField) (h : resolveField core ident ty s = .ok rf) :
    (Env.semField env rh rf).dflt =
      (match s.dflt, core.dflt with
       | some (.explicit p), _ => some (.value ((env.oracle.val? ("fn:" ++ p)).getD .unit))
       | some (.trait_ _), _ => some (.value (Env.defaultOf env.oracle ty))
       | some .inherit, _ => some .inherit
       | none, some _ => some .inherit
       | none, none => if skipTrue s then some (.value (Env.defaultOf env.oracle ty)) else none) := by
  have hd := C01.resolved_default core ident ty s rf h
  have hty : rf.ty = ty := by
    unfold resolveField at h
    cases hn : s.attrName with
    | some n => simp only [hn, Outcome.bind] at h; injection h with h; rw [← h]
    | none =>
        simp only [hn] at h
        cases hr : core.renameRule.applyToField ident with
        | ok nm => simp only [hr, Outcome.bind] at h; injection h with h; rw [← h]
        | err e => simp [hr, Outcome.bind] at h
        | panic p => simp [hr, Outcome.bind] at h
  simp only [Env.semField, hd, hty, fieldDefault]
  cases hs : s.dflt with
  | some d => cases d <;> rfl
  | none =>
      cases hc : core.dflt with
      | some d => rfl
      | none => exact skipped_default_aux env ty s.skip

/-- "converted by the field's type or custom converter and then by its map / and_then function":
    the converter `Env.semField` attaches is the custom `with` function if one is declared (and
    known to the library of the harness), else `from_meta` of the type the transform starts from
    (the element type for a `multiple` field), followed by the transform if one is declared -/
theorem conv_is_converter_then_transform (env : Env.T) (rh : String → Hooks Val) (f : RField) :
    (Env.semField env rh f).conv =
      (let srcTy : Ty := match f.post.bind Env.customPost with
         | some (t, _) => t
         | none => Env.elemTy f.ty
       let srcTy := if f.multiple then Env.elemTy srcTy else srcTy
       let base : Meta → Outcome Val := match f.with_.bind (Env.customWith env.oracle rh) with
         | some w => w
         | none => (hooksOf env.oracle rh srcTy).fromMeta
       match f.post.bind Env.customPost with
       | some (_, g) => fun m => (base m).bind g
       | none => base) := by
  simp only [Env.semField]
  cases hp : f.post with
  | none => simp only [Option.bind_none, ite_self]; rfl
  | some p =>
      cases hc : Env.customPost p with
      | none => simp only [Option.bind_some, hc, ite_self]; rfl
      | some tg =>
          obtain ⟨t, g⟩ := tg
          simp only [Option.bind_some, hc, ite_self]; rfl

theorem semField_inherit_iff (env : Env.T) (rh : String → Hooks Val) (f : RField) :
    (Env.semField env rh f).dflt = some .inherit ↔ f.dflt = some .inherit := by
  simp only [Env.semField]
  cases f.dflt with
  | none => simp
  | some d => cases d <;> simp

theorem mem_of_length_le_one {α : Type} (l : List α) (h : l.length ≤ 1) (a b : α) (ha : a ∈ l) (hb : b ∈ l) : a = b := by
  match l, h with
  | [], _ => cases ha
  | [x], _ => simp at ha hb; rw [ha, hb]
  | _ :: _ :: _, h => simp at h

/-- what the derive checks on the resolved fields gives `Declared` for the assembled receiver:
    distinct identifiers (Rust), `Core::validate_body`'s one-flatten rule (`flattenErrs = []`),
    `flatten` excluding `multiple` (`InputField::parse_nested`), inheritance only from a declared
    container default (`with_inherited`) -/
theorem semStruct_declared (env : Env.T) (rh : String → Hooks Val) (core : RCore) (fields : List RField)
    (build : List (String × Val) → Val)
    (hid : fields.Pairwise (fun f g => f.ident ≠ g.ident))
    (hone : flattenErrs fields = [])
    (hfm : ∀ f ∈ fields, f.flatten = true → f.multiple = false)
    (hinh : ∀ f ∈ fields, f.dflt = some .inherit → core.dflt.isSome = true) :
    Declared (Env.semStruct env rh core fields build) := by
  have hlen : (fields.filter (·.flatten)).length ≤ 1 := by
    unfold flattenErrs at hone
    by_cases hgt : (fields.filter (·.flatten)).length > 1
    · simp only [hgt, if_true, List.map_eq_nil_iff] at hone
      rw [hone] at hgt; simp at hgt
    · omega
  refine ⟨?_, ?_, ?_, ?_⟩
  · exact List.Pairwise.map _ (fun a b h => by simpa [semField_ident'] using h) hid
  · intro f hf g hg hfl hgl
    rw [semStruct_fields'] at hf hg
    obtain ⟨f0, hf0, rfl⟩ := List.mem_map.mp hf
    obtain ⟨g0, hg0, rfl⟩ := List.mem_map.mp hg
    have hf1 : f0 ∈ fields.filter (·.flatten) := List.mem_filter.mpr ⟨hf0, hfl⟩
    have hg1 : g0 ∈ fields.filter (·.flatten) := List.mem_filter.mpr ⟨hg0, hgl⟩
    rw [mem_of_length_le_one _ hlen f0 g0 hf1 hg1]
  · intro f hf hfl
    rw [semStruct_fields'] at hf
    obtain ⟨f0, hf0, rfl⟩ := List.mem_map.mp hf
    exact hfm f0 hf0 hfl
  · intro f hf hdf
    rw [semStruct_fields'] at hf
    obtain ⟨f0, hf0, rfl⟩ := List.mem_map.mp hf
    have := hinh f0 hf0 ((semField_inherit_iff env rh f0).mp hdf)
    simp only [Env.semStruct]
    cases hc : core.dflt with
    | none => rw [hc] at this; cases this
    | some d => rfl

/-- D1 at the level of the declaration: the side condition is about the *effective names* of the
    fields that are neither skipped nor flattened -/
theorem semStruct_namesDistinct (env : Env.T) (rh : String → Hooks Val) (core : RCore) (fields : List RField)
    (build : List (String × Val) → Val)
    (h : ∀ f ∈ fields, ∀ g ∈ fields, f.skip = false → f.flatten = false → g.skip = false → g.flatten = false →
      f.name = g.name → f = g) :
    NamesDistinct (Env.semStruct env rh core fields build) := by
  intro f hf g hg haf hag hname
  rw [semStruct_fields'] at hf hg
  obtain ⟨f0, hf0, rfl⟩ := List.mem_map.mp hf
  obtain ⟨g0, hg0, rfl⟩ := List.mem_map.mp hg
  have hf' : f0.skip = false ∧ f0.flatten = false := by
    have : (!f0.skip && !f0.flatten) = true := haf
    cases h1 : f0.skip <;> cases h2 : f0.flatten <;> simp_all
  have hg' : g0.skip = false ∧ g0.flatten = false := by
    have : (!g0.skip && !g0.flatten) = true := hag
    cases h1 : g0.skip <;> cases h2 : g0.flatten <;> simp_all
  rw [h f0 hf0 g0 hg0 hf'.1 hf'.2 hg'.1 hg'.2 hname]

/-- D3 (observation): a `map` / `and_then` written on the flatten field never runs — what the
    flatten field is given is its type's `from_list` alone -/
theorem flatten_ignores_post (env : Env.T) (rh : String → Hooks Val) (f : RField) (p : Option Post) :
    (Env.semField env rh { f with post := p }).fromList = (Env.semField env rh f).fromList := rfl

/-- … and a default declared for it is dead in the model of the generated parser, for every
    receiver and input: the flatten field's value never depends on `dflt` -/
theorem flatten_ignores_default (r : SStruct ν) (hd : Declared r) (items : List NestedMeta) (f : SField ν)
    (hf : f ∈ r.fields) (hfl : f.flatten = true) :
    Spec.C01.fieldValue r items f =
      (match Spec.C01.flattenValue r items with
       | some v => .ok v
       | none => (match f.dflt with
          | some d => Spec.C01.defaultOf r f d
          | none => (match f.fromNone with
              | some v => .ok v
              | none => .panic "Uninitialized fields without defaults were already checked"))) := by
  simp only [Spec.C01.fieldValue, hd.flattenSingle f hf hfl, isFirstFlatten_eq r hd f hf, hfl,
    Bool.false_eq_true, if_false, if_true]
  rfl

end decl

/-! ## 5. Discrepancies between the text and the behaviour, and non-vacuity

  Values are lists of numbers: a scalar `k` is `[k]`, "absent" (`None`) is `[0]`, a struct is the
  concatenation of its fields, a `Vec` the concatenation of its elements. -/
namespace Witness

def mkPath (name : String) : Path := { global := false, segs := [name], plain := true, toks := name, span := ⟨0, 0⟩ }
/-- the item `name` -/
def word (name : String) : NestedMeta := .item (.path (mkPath name))

def mkStruct (fields : List (SField (List Nat))) : SStruct (List Nat) :=
  { fields, allowUnknown := false, containerDefault := none,
    build := fun kvs => kvs.flatMap (·.2), mkList := List.flatten, post := .ok, score := fun _ _ => 0, thr := 0 }

/-- a field of type `Option<_>`: any value is accepted and reads `[1]`, absent reads `[0]` -/
def opt (ident name : String) : SField (List Nat) :=
  { ident, name, conv := fun _ => .ok [1], fromNone := some [0], fromList := fun _ => .ok [],
    dflt := none, skip := false, multiple := false, flatten := false }

/-- a required field -/
def req (ident name : String) : SField (List Nat) := { opt ident name with fromNone := none }

/-! ### D1 — two fields with the same effective name
  `struct Dup { #[darling(rename = "a")] b: Option<String>, a: Option<String> }`, input `a = "hello"`:
  the text gives *each* field the value supplied under its effective name; the generated `match`
  has two arms `"a"` of which the second is dead. -/
def dup : SStruct (List Nat) := mkStruct [opt "b" "a", opt "a" "a"]

theorem dup_declared : Declared dup := by
  refine ⟨by simp [dup, mkStruct, opt], ?_, ?_, ?_⟩
  · intro f hf g _ hfl
    simp only [dup, mkStruct, List.mem_cons, List.mem_nil_iff, or_false] at hf
    rcases hf with rfl | rfl <;> cases hfl
  · intro f hf hfl
    simp only [dup, mkStruct, List.mem_cons, List.mem_nil_iff, or_false] at hf
    rcases hf with rfl | rfl <;> cases hfl
  · intro f hf hdf
    simp only [dup, mkStruct, List.mem_cons, List.mem_nil_iff, or_false] at hf
    rcases hf with rfl | rfl <;> cases hdf

theorem dup_returns : Returns dup := by
  constructor <;>
  · intro f hf
    simp only [dup, mkStruct, List.mem_cons, List.mem_nil_iff, or_false] at hf
    rcases hf with rfl | rfl <;> intro _ _ h <;> cases h

theorem dup_mistakeFree : MistakeFree dup [word "a"] := by
  refine ⟨?_, Or.inl rfl, ?_, ?_, ?_, ?_⟩
  · intro it hit; simp only [List.mem_singleton] at hit; exact ⟨_, hit⟩
  · intro f hf _ _
    simp only [dup, mkStruct, List.mem_cons, List.mem_nil_iff, or_false] at hf
    rcases hf with rfl | rfl <;> decide
  · intro f hf _ m _
    simp only [dup, mkStruct, List.mem_cons, List.mem_nil_iff, or_false] at hf
    rcases hf with rfl | rfl <;> exact ⟨[1], rfl⟩
  · intro f hf hfl
    simp only [dup, mkStruct, List.mem_cons, List.mem_nil_iff, or_false] at hf
    rcases hf with rfl | rfl <;> cases hfl
  · intro f hf _ _ _ hfn
    simp only [dup, mkStruct, List.mem_cons, List.mem_nil_iff, or_false] at hf
    rcases hf with rfl | rfl <;> cases hfn

theorem dup_flattenDefaultAgrees : FlattenDefaultAgrees dup := by
  intro f hf hfl
  simp only [dup, mkStruct, List.mem_cons, List.mem_nil_iff, or_false] at hf
  rcases hf with rfl | rfl <;> cases hfl

/-- D1: every hypothesis of `fromList_eq_record_partial` except `NamesDistinct` holds, the input is
    mistake-free, the text gives both fields the value (`[1]`), the parser leaves field `a` absent
    (`[0]`) -/
example : Declared dup ∧ Returns dup ∧ FlattenDefaultAgrees dup ∧ MistakeFree dup [word "a"] ∧
    ¬ NamesDistinct dup ∧
    record dup [word "a"] = some [("b", [1]), ("a", [1])] ∧
    dup.post (dup.build [("b", [1]), ("a", [1])]) = .ok [1, 1] ∧
    fromList dup [word "a"] = .ok [1, 0] := by
  refine ⟨dup_declared, dup_returns, dup_flattenDefaultAgrees, dup_mistakeFree, ?_, rfl, rfl, rfl⟩
  intro h
  have := h (opt "b" "a") (by simp [dup, mkStruct]) (opt "a" "a") (by simp [dup, mkStruct]) rfl rfl rfl
  simp [opt] at this

/-- D1, required variant (`b: String`, `a: String`): the input supplies the name `a`, the answer
    is "Missing field `a`" -/
def dupReq : SStruct (List Nat) := mkStruct [req "b" "a", req "a" "a"]
example : fromList dupReq [word "a"] = .err (Err.new (.missingField "a")) := rfl
example : record dupReq [word "a"] = some [("b", [1]), ("a", [1])] := rfl

/-! ### D2 — a default declared for the flatten field is never used
  `struct FlatDef { x: u8, #[darling(flatten, default = "inner_default")] inner: Inner }` with
  `struct Inner { p: Option<u8> }`, `inner_default() = Inner { p: Some(7) }`, input `x = 1`:
  nothing is handed to `inner`, so by the text it holds its declared default `[7]`; the parser
  always runs `Inner::from_list(&[])`, which reads `[0]`. -/
def flatDef : SStruct (List Nat) :=
  mkStruct [req "x" "x",
    { ident := "inner", name := "inner", conv := fun _ => .ok [], fromNone := none,
      fromList := fun items => .ok [items.length], dflt := some (.value [7]),
      skip := false, multiple := false, flatten := true }]

example : strangers flatDef [word "x"] = [] ∧
    record flatDef [word "x"] = some [("x", [1]), ("inner", [7])] ∧
    fromList flatDef [word "x"] = .ok [1, 0] ∧
    ¬ FlattenDefaultAgrees flatDef := by
  refine ⟨rfl, rfl, rfl, ?_⟩
  intro h
  obtain ⟨v, h1, h2⟩ := h _ (by simp [flatDef, mkStruct]; right; rfl) rfl rfl
  simp only [fallback, Option.some.injEq] at h2
  rw [← h2] at h1
  cases h1

/-! ### non-vacuity of the hypotheses of the main theorems -/

local macro "no " h:ident : tactic => `(tactic| (cases $h:ident; done))

/-- `struct Good { x: u8, #[darling(multiple, rename = "tag")] tags: Vec<u8>,
    #[darling(skip, default = "five")] sk: u8, #[darling(flatten, default)] rest: Rest }`
    where `Rest::from_list(&[])` is `Rest::default()` -/
def gX : SField (List Nat) := req "x" "x"
def gTags : SField (List Nat) := { opt "tags" "tag" with conv := fun _ => .ok [2], fromNone := none, multiple := true }
def gSk : SField (List Nat) := { opt "sk" "sk" with dflt := some (.value [5]), skip := true }
def gRest : SField (List Nat) :=
  { opt "rest" "rest" with fromList := fun items => .ok [items.length], dflt := some (.value [0]),
                            fromNone := none, flatten := true }
def good : SStruct (List Nat) := mkStruct [gX, gTags, gSk, gRest]

theorem good_mem {f : SField (List Nat)} (hf : f ∈ good.fields) : f = gX ∨ f = gTags ∨ f = gSk ∨ f = gRest := by
  simpa [good, mkStruct] using hf

theorem good_declared : Declared good := by
  refine ⟨by simp [good, mkStruct, gX, gTags, gSk, gRest, opt, req], ?_, ?_, ?_⟩
  · intro f hf g hg hfl hgl
    rcases good_mem hf with rfl | rfl | rfl | rfl <;> first | no hfl | skip
    rcases good_mem hg with rfl | rfl | rfl | rfl <;> first | no hgl | rfl
  · intro f hf hfl
    rcases good_mem hf with rfl | rfl | rfl | rfl <;> first | no hfl | rfl
  · intro f hf hdf
    rcases good_mem hf with rfl | rfl | rfl | rfl <;> no hdf

theorem good_returns : Returns good := by
  constructor <;>
  · intro f hf
    rcases good_mem hf with rfl | rfl | rfl | rfl <;> intro _ _ h <;> no h

theorem good_namesDistinct : NamesDistinct good := by
  intro f hf g hg haf hag hname
  rcases good_mem hf with rfl | rfl | rfl | rfl <;> first | no haf | skip
  all_goals rcases good_mem hg with rfl | rfl | rfl | rfl <;> first | no hag | rfl | (exfalso; revert hname; decide)

theorem good_flattenDefaultAgrees : FlattenDefaultAgrees good := by
  intro f hf hfl _
  rcases good_mem hf with rfl | rfl | rfl | rfl <;> first | no hfl | exact ⟨[0], rfl, rfl⟩

def goodInput : List NestedMeta := [word "tag", word "x", word "zzz", word "tag"]

theorem good_mistakeFree : MistakeFree good goodInput := by
  refine ⟨?_, Or.inr (Or.inl ⟨gRest, by simp [good, mkStruct], rfl⟩), ?_, ?_, ?_, ?_⟩
  · intro it hit
    simp only [goodInput, List.mem_cons, List.mem_nil_iff, or_false] at hit
    rcases hit with rfl | rfl | rfl | rfl <;> exact ⟨_, rfl⟩
  · intro f hf _ hm
    rcases good_mem hf with rfl | rfl | rfl | rfl <;> first | no hm | decide
  · intro f hf ha m _
    rcases good_mem hf with rfl | rfl | rfl | rfl <;> first | no ha | exact ⟨_, rfl⟩
  · intro f hf hfl
    rcases good_mem hf with rfl | rfl | rfl | rfl <;> first | no hfl | exact Or.inr ⟨_, rfl⟩
  · intro f hf hfl hm hdf hfn
    rcases good_mem hf with rfl | rfl | rfl | rfl <;>
      first | no hfl | no hm | no hdf | exact ⟨rfl, by decide⟩

/-- the conclusion of `fromList_eq_record_partial`, computed: `x = [1]`, two `tag`s in order, the
    skipped field its default, the flatten field the one stranger -/
example : record good goodInput = some [("x", [1]), ("tags", [2, 2]), ("sk", [5]), ("rest", [1])] ∧
    fromList good goodInput = .ok [1, 2, 2, 5, 1] := ⟨rfl, rfl⟩

/-- the flatten default is used, and agrees, when nothing is handed over -/
example : MistakeFree good [word "x"] ∧ flattenIdle good [word "x"] gRest ∧
    fromList good [word "x"] = .ok [1, 5, 0] := by
  refine ⟨?_, ⟨rfl, rfl⟩, rfl⟩
  refine ⟨?_, Or.inl rfl, ?_, ?_, ?_, ?_⟩
  · intro it hit
    simp only [List.mem_singleton] at hit
    exact ⟨_, hit⟩
  · intro f hf _ hm
    rcases good_mem hf with rfl | rfl | rfl | rfl <;> first | no hm | decide
  · intro f hf ha m _
    rcases good_mem hf with rfl | rfl | rfl | rfl <;> first | no ha | exact ⟨_, rfl⟩
  · intro f hf hfl
    rcases good_mem hf with rfl | rfl | rfl | rfl <;> first | no hfl | exact Or.inl ⟨rfl, rfl⟩
  · intro f hf hfl hm hdf hfn
    rcases good_mem hf with rfl | rfl | rfl | rfl <;>
      first | no hfl | no hm | no hdf | exact ⟨rfl, by decide⟩

/-- hypothesis of `fromList_refuses_partial`: the required `x` is absent -/
example : ¬ MistakeFree good [word "tag"] ∧ ∃ e, fromList good [word "tag"] = .err e := by
  refine ⟨fun h => ?_, ⟨_, rfl⟩⟩
  have := (h.noneAbsent gX (by simp [good, mkStruct]) rfl rfl rfl rfl).2
  exact this (by decide)

/-- `fromList_succeeds_partial`: no container-level transform -/
example : good.post = .ok := rfl

/-- `fromList_congr_partial`: the same items in another order, still mistake-free, the same
    items under every name and the same strangers -/
def goodInput' : List NestedMeta := [word "zzz", word "x", word "tag", word "tag"]

theorem good_mistakeFree' : MistakeFree good goodInput' := by
  refine ⟨?_, Or.inr (Or.inl ⟨gRest, by simp [good, mkStruct], rfl⟩), ?_, ?_, ?_, ?_⟩
  · intro it hit
    simp only [goodInput', List.mem_cons, List.mem_nil_iff, or_false] at hit
    rcases hit with rfl | rfl | rfl | rfl <;> exact ⟨_, rfl⟩
  · intro f hf _ hm
    rcases good_mem hf with rfl | rfl | rfl | rfl <;> first | no hm | decide
  · intro f hf ha m _
    rcases good_mem hf with rfl | rfl | rfl | rfl <;> first | no ha | exact ⟨_, rfl⟩
  · intro f hf hfl
    rcases good_mem hf with rfl | rfl | rfl | rfl <;> first | no hfl | exact Or.inr ⟨_, rfl⟩
  · intro f hf hfl hm hdf hfn
    rcases good_mem hf with rfl | rfl | rfl | rfl <;>
      first | no hfl | no hm | no hdf | exact ⟨rfl, by decide⟩

example : (∀ f ∈ good.fields, occurrences f goodInput = occurrences f goodInput') ∧
    strangers good goodInput = strangers good goodInput' ∧ goodInput ≠ goodInput' ∧
    fromList good goodInput = fromList good goodInput' := by
  have hocc : ∀ f ∈ good.fields, occurrences f goodInput = occurrences f goodInput' := by
    intro f hf
    rcases good_mem hf with rfl | rfl | rfl | rfl <;> rfl
  refine ⟨hocc, rfl, ?_, ?_⟩
  · intro h
    have h1 := (List.cons.inj h).1
    simp only [word, NestedMeta.item.injEq, Meta.path.injEq] at h1
    exact absurd h1 (by decide)
  · exact fromList_congr_partial good good_declared good_returns good_namesDistinct good_flattenDefaultAgrees
      _ _ good_mistakeFree good_mistakeFree' hocc rfl

/-- `outer_eq_record_partial`: `#[my(x)] #[doc] #[my(tag, zzz)] #[my] #[my(tag)]` on an element, with
    an `attrs` member that counts the forwarded attributes -/
def mkAttr (name : String) (items : List NestedMeta) : Attr :=
  { path := mkPath name, body := .list (mkPath name) items none none "" ⟨0, 0⟩, toks := "", span := ⟨0, 0⟩ }
def bareAttr (name : String) : Attr := { path := mkPath name, body := .path (mkPath name), toks := "", span := ⟨0, 0⟩ }

def goodOuter : SOuter (List Nat) :=
  { fields := good, attrNames := ["my"], forward := some .all, attrsField := some (fun as => .ok [as.length]) }

def goodAttrs : List Attr :=
  [mkAttr "my" [word "tag"], bareAttr "doc", mkAttr "my" [word "x", word "zzz"], bareAttr "my", mkAttr "my" [word "tag"]]

example : C08.AllParse goodOuter goodAttrs ∧ C08.selItems goodOuter goodAttrs = goodInput ∧
    MistakeFree goodOuter.fields (C08.selItems goodOuter goodAttrs) ∧
    (∀ mk, goodOuter.attrsField = some mk → ∃ v, mk (goodAttrs.filter (C08.forwardedBy goodOuter)) = .ok v) ∧
    goodAttrs.filter (C08.forwardedBy goodOuter) = [bareAttr "doc"] := by
  refine ⟨?_, rfl, good_mistakeFree, ?_, rfl⟩
  · intro a ha _
    simp only [goodAttrs, List.mem_cons, List.mem_nil_iff, or_false] at ha
    rcases ha with rfl | rfl | rfl | rfl | rfl <;> exact ⟨_, rfl⟩
  · intro mk hmk
    cases hmk
    exact ⟨_, rfl⟩

/-- `finishChecked_eq_record_partial`: the walk over the concatenated items returns a state -/
example : ∃ p, coreLoop goodOuter.fields {} goodInput = .ok p := ⟨_, rfl⟩

/-- `declared_default_chain`: the options `#[darling(skip)]` on `f: u8` in a container without options -/
example : Options.resolveField {} "f" .bool { skip := some (true, none) } =
    .ok { ident := "f", name := "f", ty := .bool, with_ := none, post := none,
          dflt := some (.trait_ default), skip := true, multiple := false, flatten := false } := rfl

/-- `semStruct_declared` / `semStruct_namesDistinct`: two resolved fields, one of them flattened -/
def rf1 : Options.RField :=
  { ident := "x", name := "x", ty := .bool, with_ := none, post := none, dflt := some .inherit,
    skip := false, multiple := false, flatten := false }
def rf2 : Options.RField :=
  { ident := "rest", name := "rest", ty := .bool, with_ := none, post := none, dflt := none,
    skip := false, multiple := false, flatten := true }
def rcore : Options.RCore :=
  { ident := "R", data := .struct .named [rf1, rf2], dflt := some (.trait_ default), post := none, allowUnknown := false }

example : [rf1, rf2].Pairwise (fun f g => f.ident ≠ g.ident) ∧ Options.flattenErrs [rf1, rf2] = [] ∧
    (∀ f ∈ [rf1, rf2], f.flatten = true → f.multiple = false) ∧
    (∀ f ∈ [rf1, rf2], f.dflt = some .inherit → rcore.dflt.isSome = true) ∧
    (∀ f ∈ [rf1, rf2], ∀ g ∈ [rf1, rf2], f.skip = false → f.flatten = false → g.skip = false → g.flatten = false →
      f.name = g.name → f = g) := by
  refine ⟨by simp [rf1, rf2], rfl, by decide, fun _ _ _ => rfl, ?_⟩
  intro f hf g hg _ hff _ hgf _
  simp only [List.mem_cons, List.mem_nil_iff, or_false] at hf hg
  rcases hf with rfl | rfl <;> first | no hff | skip
  rcases hg with rfl | rfl <;> first | no hgf | rfl

end Witness

end C01
