import Darling.Error
import Darling.Spec.C03
import Darling.Spec.C04
import Darling.Lemmas.Error
import Darling.Props.C04
/-
  C03 — Errors carry the most specific source span and never lose it.
  Part 1 (this file, error algebra): a span once attached is never replaced; bundling,
  flattening and conversion to compiler diagnostics preserve each leaf's span or give it its
  enclosing bundle's span if it had none.  For all trees and all spans.
-/
open Spec.C03 Err

namespace C03

/-- a span once attached is never replaced (by a coarser or any other one) -/
theorem withSpan_keeps (e : Err) (s t : Span) (h : e.span = some s) : (e.withSpan t) = e := by
  cases e with
  | leaf k ls sp => simp [Err.span] at h; subst h; rfl
  | multi cs ls sp => simp [Err.span] at h; subst h; rfl

theorem withSpan_sets (e : Err) (t : Span) (h : e.span = none) : (e.withSpan t).span = some t := by
  cases e with
  | leaf k ls sp => simp [Err.span] at h; subst h; rfl
  | multi cs ls sp => simp [Err.span] at h; subst h; rfl

/-- first writer wins -/
theorem withSpan_first_wins (e : Err) (s t : Span) (h : e.span = none) :
    (e.withSpan s).withSpan t = e.withSpan s :=
  withSpan_keeps _ s t (withSpan_sets e s h)

/-- `at` and `multiple` never touch an existing span -/
theorem at_span (e : Err) (l : String) : (e.at l).span = e.span := by
  cases e <;> rfl

theorem span_inherit (k ls s sp) : ((Err.leaf k ls s).inheritSpan sp).span = s.or sp := by
  cases sp <;> cases s <;> rfl

mutual
theorem intoVecP_spans (pre sp) (e : Err) : (intoVecP pre sp e).map Err.span = spansUnder sp e := by
  cases e with
  | leaf k ls s => simp [spansUnder, span_inherit]
  | multi cs ls s => simp [spansUnder]; exact intoVecListP_spans _ _ cs
theorem intoVecListP_spans (pre sp) (es : List Err) :
    (intoVecListP pre sp es).map Err.span = spansListUnder sp es := by
  cases es with
  | nil => simp [spansListUnder]
  | cons c cs => simp [spansListUnder, intoVecP_spans pre sp c, intoVecListP_spans pre sp cs]
end

/-- the items of a flattened error are the elements of `into_vec` -/
theorem flatten_intoIter {e f : Err} (hf : e.flatten = .ok f) : f.intoIter = intoVec e := by
  have hleaf := intoVecP_allLeaf [] none e
  unfold Err.flatten at hf
  generalize hv : intoVec e = v at *
  match v, hv, hf with
  | [x], hv, hf =>
      simp [Err.multiple] at hf; subst hf
      have hx := hleaf x (by simp [intoVec] at hv; simp [hv])
      cases x with
      | leaf k ls s => rfl
      | multi _ _ _ => simp [isLeaf] at hx
  | x :: y :: r, hv, hf => simp [Err.multiple] at hf; subst hf; rfl

/-- **flattening preserves each leaf's span, or gives it its enclosing bundle's span if it had
    none** — for every tree -/
theorem flatten_spans {e f : Err} (hf : e.flatten = .ok f) :
    f.intoIter.map Err.span = leafSpans e := by
  rw [flatten_intoIter hf]; exact intoVecP_spans [] none e

/-- conversion to compiler diagnostics places each diagnostic at that same span -/
theorem toSyn_spans {e : Err} (h : C04.Reachable e) : e.toSyn.map (·.1) = leafSpans e := by
  rw [C04.toSyn_rows h, List.map_map]
  have : (fun x => (synRow x).1) = Err.span := by
    funext x
    simp only [synRow]
    cases hx : x.span <;> simp
  show List.map ((fun x => x.1) ∘ synRow) (intoVec e) = _
  rw [show ((fun x : Option Span × String => x.1) ∘ synRow) = Err.span from this]
  exact intoVecP_spans [] none e

/-- a leaf that has a span keeps exactly that span through flattening -/
theorem spansUnder_leaf_some (inh k ls) (s : Span) : spansUnder inh (.leaf k ls (some s)) = [some s] := by
  simp [spansUnder]

/-! non-vacuity: the nested-absence case (two missing fields inside a spanned nested item) -/
def nested : Err :=
  .multi [.leaf (.missingField "a") [] none, .leaf (.missingField "b") [] none] ["inner"] (some ⟨10, 17⟩)

example : leafSpans nested = [some ⟨10, 17⟩, some ⟨10, 17⟩] := by decide
example : nested.toSyn.map (·.1) = [some ⟨10, 17⟩, some ⟨10, 17⟩] := by decide

end C03
