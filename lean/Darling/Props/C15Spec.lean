import Darling.Props.C15
import Darling.Props.C15a
/-
  C15 — an independent, positional specification written from the property text, and the
  end-to-end theorems `model = specification`.

  Part A (splitting)   `CommaSeparatedFrom` says what a comma-separated list of literals and
                       meta items is, by the token ranges its elements occupy;
                       `parseList_ok_iff_commaSeparated`: the model returns `items` iff the
                       stream is such a list of exactly these elements (hypothesis `OracleSane`
                       for "only if"; `commaSeparated_parseList` needs none);
                       `ends_before`: order is kept.
  Part B (round trip)  printing = the stream without its trailing comma;
                       `drop_trailing_comma_partial`: re-parsing it gives the same elements,
                       IF syn's parsers answer as before at every element start.
                       `negative_value_not_stable`: they do not for `a = -1,` (DISCREPANCY 1,
                       reproduced on the library: `Expr::Unary` before, `Expr::Lit` after).
  Part C (routing)     `selected`: the routing table, a function of (override subset, form);
                       `route_eq`: `from_nested_meta` = outcome of that one hook (or the
                       documented default), with the precisely specified span;
                       `hookOf_form_alone`, `inner_of_hook`, `inner_of_no_hook`;
                       `route_text_iff` / `route_text_partial`: against the statement's wording
                       "the item's span"; `value_literal_error_gets_literal_span`
                       (DISCREPANCY 2: for `name = literal` it is the literal's span).
-/
namespace C15
open ParseList

/-! ## Part A — what a comma-separated list of literals and meta items *is* -/
section Split
variable (toks : List Tok) (o : SynOracle)

/-- token `i` is an identifier (any: keywords and raw identifiers included) -/
def IdentAt (i : Nat) : Prop := ∃ w sp, toks[i]? = some ⟨.ident w, sp⟩
/-- token `i` is the identifier `w` -/
def WordAt (i : Nat) (w : String) : Prop := ∃ sp, toks[i]? = some ⟨.ident w, sp⟩
/-- token `i` is the punctuation character `c` -/
def PunctAt (i : Nat) (c : Char) : Prop := ∃ jt sp, toks[i]? = some ⟨.punct c jt, sp⟩
/-- tokens `i`, `i+1` spell `::` (two colons, the first glued to the second) -/
def PathSepAt (i : Nat) : Prop := (∃ sp, toks[i]? = some ⟨.punct ':' true, sp⟩) ∧ PunctAt toks (i + 1) ':'
/-- `true = …` / `false = …`: the word is the *name* of a name-value item, not a literal -/
def BoolNameAt (i : Nat) : Prop := (WordAt toks i "true" ∨ WordAt toks i "false") ∧ PunctAt toks (i + 1) '='
/-- a literal stands at `i`: syn reads one there, and it is not `true`/`false` used as a name
    ("`true` alone is a literal") -/
def LiteralAt (i : Nat) : Prop := (o.lit i).isSome = true ∧ ¬ BoolNameAt toks i
/-- a path starts at `i`: an identifier — keyword or not — or `::` followed by one -/
def PathStartAt (i : Nat) : Prop := IdentAt toks i ∨ (PathSepAt toks i ∧ IdentAt toks (i + 2))

/-- tokens `[i, j)` are one list element `it`: a literal (what syn's `Lit` parser reads there),
    or else a meta item (what syn's `Meta` parser reads there, at the start of a path);
    an element occupies at least one token -/
inductive Reads : Nat → Nat → Item → Prop where
  | literal {i len : Nat} {s : String} :
      LiteralAt toks o i → o.lit i = some (len, s) → 0 < len → Reads i (i + len) (.lit s)
  | item {i len : Nat} {s : String} :
      ¬ LiteralAt toks o i → PathStartAt toks i → o.meta_ i = .ok (len, s) → 0 < len → Reads i (i + len) (.item s)

/-- **the specification of clause (a)**: `bounds[k] = (a, b)` says element `k` occupies tokens
    `[a, b)`.  The first element starts at `start` (0 for the whole stream), neighbours are
    separated by exactly one comma, after the last element the stream ends, possibly after one
    more comma; no elements only for the empty stream. -/
structure CommaSeparatedFrom (start : Nat) (items : List Item) (bounds : List (Nat × Nat)) : Prop where
  same_len : bounds.length = items.length
  reads : ∀ (k a b : Nat) (it : Item), bounds[k]? = some (a, b) → items[k]? = some it → Reads toks o a b it
  first : ∀ (a b : Nat), bounds[0]? = some (a, b) → a = start
  sep : ∀ (k a b a' b' : Nat), bounds[k]? = some (a, b) → bounds[k + 1]? = some (a', b') → PunctAt toks b ',' ∧ a' = b + 1
  last : ∀ (a b : Nat), bounds.getLast? = some (a, b) → b = toks.length ∨ (PunctAt toks b ',' ∧ b + 1 = toks.length)
  empty : bounds = [] → toks.length ≤ start

/-- syn's parsers consume at least one token and stay inside the stream -/
def OracleSane : Prop :=
  (∀ i len s, o.lit i = some (len, s) → 0 < len ∧ i + len ≤ toks.length) ∧
  (∀ i len s, o.meta_ i = .ok (len, s) → 0 < len ∧ i + len ≤ toks.length)

/-! ### the token predicates are what the model's look-ahead tests -/

theorem isAnyIdent_iff (i : Nat) : isAnyIdent toks i = true ↔ IdentAt toks i := by
  unfold isAnyIdent tokAt IdentAt
  cases h : toks[i]? with
  | none => simp
  | some t => obtain ⟨k, sp⟩ := t; cases k <;> simp

theorem isBoolIdent_iff (i : Nat) : isBoolIdent toks i = true ↔ (WordAt toks i "true" ∨ WordAt toks i "false") := by
  unfold isBoolIdent tokAt WordAt
  cases h : toks[i]? with
  | none => simp
  | some t => obtain ⟨k, sp⟩ := t; cases k <;> simp

theorem isEq_iff (i : Nat) : isEq toks i = true ↔ PunctAt toks i '=' := by
  unfold isEq tokAt PunctAt
  cases h : toks[i]? with
  | none => simp
  | some t =>
      obtain ⟨k, sp⟩ := t
      cases k with
      | punct c jt => by_cases hc : c = '=' <;> simp [hc]
      | _ => simp

theorem isComma_iff (i : Nat) : isComma toks i = true ↔ PunctAt toks i ',' := by
  unfold isComma tokAt PunctAt
  cases h : toks[i]? with
  | none => simp
  | some t =>
      obtain ⟨k, sp⟩ := t
      cases k with
      | punct c jt => by_cases hc : c = ',' <;> simp [hc]
      | _ => simp

theorem isColon2_iff (i : Nat) : isColon2 toks i = true ↔ PathSepAt toks i := by
  unfold isColon2 tokAt PathSepAt PunctAt
  cases h : toks[i]? with
  | none => simp
  | some t =>
      obtain ⟨k, sp⟩ := t
      cases h' : toks[i + 1]? with
      | none => cases k <;> simp
      | some t' =>
          obtain ⟨k', sp'⟩ := t'
          cases k with
          | punct c jt =>
              cases k' with
              | punct c' jt' =>
                  by_cases hc : c = ':' <;> by_cases hc' : c' = ':' <;> cases jt <;> simp [hc, hc']
              | _ => by_cases hc : c = ':' <;> cases jt <;> simp [hc]
          | _ => cases k' <;> simp

theorem boolName_iff (i : Nat) : (isBoolIdent toks i && isEq toks (i + 1)) = true ↔ BoolNameAt toks i := by
  simp only [Bool.and_eq_true, isBoolIdent_iff, isEq_iff, BoolNameAt]

theorem pathStart_iff (i : Nat) :
    (isAnyIdent toks i || (isColon2 toks i && isAnyIdent toks (i + 2))) = true ↔ PathStartAt toks i := by
  simp only [Bool.or_eq_true, Bool.and_eq_true, isAnyIdent_iff, isColon2_iff, PathStartAt]

/-- the look-ahead takes the literal branch exactly where the text says a literal stands -/
theorem branch_lit_iff (i : Nat) : branch toks o i = .lit ↔ LiteralAt toks o i := by
  unfold LiteralAt
  rw [← boolName_iff toks i]
  unfold branch
  generalize (o.lit i).isSome = x
  generalize (isBoolIdent toks i && isEq toks (i + 1)) = y
  generalize (isAnyIdent toks i || (isColon2 toks i && isAnyIdent toks (i + 2))) = z
  cases x <;> cases y <;> cases z <;> decide

/-- … and the item branch exactly where no literal stands and a path starts -/
theorem branch_item_iff (i : Nat) : branch toks o i = .item ↔ (¬ LiteralAt toks o i ∧ PathStartAt toks i) := by
  unfold LiteralAt
  rw [← boolName_iff toks i, ← pathStart_iff toks i]
  unfold branch
  generalize (o.lit i).isSome = x
  generalize (isBoolIdent toks i && isEq toks (i + 1)) = y
  generalize (isAnyIdent toks i || (isColon2 toks i && isAnyIdent toks (i + 2))) = z
  cases x <;> cases y <;> cases z <;> decide

/-- one element of the specification = one successful step of the model that makes progress -/
theorem reads_iff_itemAt (i j : Nat) (it : Item) :
    Reads toks o i j it ↔ (itemAt toks o i = .ok (it, j) ∧ i < j) := by
  constructor
  · intro h
    cases h with
    | literal hl ho hpos =>
        have hb := (branch_lit_iff toks o i).mpr hl
        exact ⟨by simp [itemAt, hb, ho], by omega⟩
    | item hnl hp ho hpos =>
        have hb := (branch_item_iff toks o i).mpr ⟨hnl, hp⟩
        exact ⟨by simp [itemAt, hb, ho], by omega⟩
  · rintro ⟨h, hlt⟩
    unfold itemAt at h
    split at h
    · rename_i hb
      split at h
      · rename_i len s ho
        cases h
        exact .literal ((branch_lit_iff toks o i).mp hb) ho (by omega)
      · cases h
    · rename_i hb
      split at h
      · rename_i len s ho
        cases h
        have := (branch_item_iff toks o i).mp hb
        exact .item this.1 this.2 ho (by omega)
      · cases h
    · cases h

theorem punctAt_lt {i : Nat} {c : Char} (h : PunctAt toks i c) : i < toks.length := by
  obtain ⟨jt, sp, h⟩ := h
  exact (List.getElem?_eq_some_iff.mp h).1

theorem itemAt_sane (hs : OracleSane toks o) {i j : Nat} {it : Item} (h : itemAt toks o i = .ok (it, j)) :
    i < j ∧ j ≤ toks.length := by
  unfold itemAt at h
  split at h
  · split at h
    · rename_i len s ho
      cases h
      have := hs.1 i len s ho
      omega
    · cases h
  · split at h
    · rename_i len s ho
      cases h
      have := hs.2 i len s ho
      omega
    · cases h
  · cases h

/-- model ⟹ specification -/
theorem splits_commaSeparated (hs : OracleSane toks o) {i : Nat} {items : List Item}
    (h : C15a.Splits toks o i items) : ∃ bounds, CommaSeparatedFrom toks o i items bounds := by
  induction h with
  | done hi =>
      exact ⟨[], ⟨rfl, by simp, by simp, by simp, by simp, fun _ => hi⟩⟩
  | @last i j it hi hit hj =>
      have hsane := itemAt_sane toks o hs hit
      refine ⟨[(i, j)], ⟨rfl, ?_, ?_, ?_, ?_, by simp⟩⟩
      · intro k a b it' hb hi'
        cases k with
        | zero =>
            simp only [List.getElem?_cons_zero, Option.some.injEq, Prod.mk.injEq] at hb hi'
            obtain ⟨rfl, rfl⟩ := hb
            subst hi'
            exact (reads_iff_itemAt toks o _ _ _).mpr ⟨hit, hsane.1⟩
        | succ k => simp at hb
      · intro a b hb
        simp only [List.getElem?_cons_zero, Option.some.injEq, Prod.mk.injEq] at hb
        exact hb.1.symm
      · intro k a b a' b' _ hb'
        simp at hb'
      · intro a b hb
        simp only [List.getLast?_singleton, Option.some.injEq, Prod.mk.injEq] at hb
        obtain ⟨rfl, rfl⟩ := hb
        left; omega
  | @cons i j it rest hi hit hj hc _ ih =>
      obtain ⟨bs, hbs⟩ := ih
      have hsane := itemAt_sane toks o hs hit
      have hcomma := (isComma_iff toks j).mp hc
      refine ⟨(i, j) :: bs, ⟨by simp [hbs.same_len], ?_, ?_, ?_, ?_, by simp⟩⟩
      · intro k a b it' hb hi'
        cases k with
        | zero =>
            simp only [List.getElem?_cons_zero, Option.some.injEq, Prod.mk.injEq] at hb hi'
            obtain ⟨rfl, rfl⟩ := hb
            subst hi'
            exact (reads_iff_itemAt toks o _ _ _).mpr ⟨hit, hsane.1⟩
        | succ k =>
            simp only [List.getElem?_cons_succ] at hb hi'
            exact hbs.reads k a b it' hb hi'
      · intro a b hb
        simp only [List.getElem?_cons_zero, Option.some.injEq, Prod.mk.injEq] at hb
        exact hb.1.symm
      · intro k a b a' b' hb hb'
        cases k with
        | zero =>
            simp only [List.getElem?_cons_zero, Option.some.injEq, Prod.mk.injEq] at hb
            obtain ⟨rfl, rfl⟩ := hb
            simp only [Nat.zero_add, List.getElem?_cons_succ] at hb'
            exact ⟨hcomma, hbs.first a' b' hb'⟩
        | succ k =>
            simp only [List.getElem?_cons_succ] at hb hb'
            exact hbs.sep k a b a' b' hb hb'
      · intro a b hb
        cases bs with
        | nil =>
            simp only [List.getLast?_singleton, Option.some.injEq, Prod.mk.injEq] at hb
            obtain ⟨rfl, rfl⟩ := hb
            have := hbs.empty rfl
            right; exact ⟨hcomma, by omega⟩
        | cons b0 bs' =>
            rw [List.getLast?_cons_cons] at hb
            exact hbs.last a b hb

/-- the rest of a specification after its first element -/
theorem commaSeparated_tail {start a b : Nat} {it : Item} {rest : List Item} {b0 : Nat × Nat} {bs : List (Nat × Nat)}
    (h : CommaSeparatedFrom toks o start (it :: rest) ((a, b) :: b0 :: bs)) :
    CommaSeparatedFrom toks o (b + 1) rest (b0 :: bs) := by
  refine ⟨?_, ?_, ?_, ?_, ?_, by simp⟩
  · have := h.same_len
    simp only [List.length_cons] at this ⊢
    omega
  · intro k a' b' it' hb hi
    exact h.reads (k + 1) a' b' it' (by simpa using hb) (by simpa using hi)
  · intro a' b' hb
    exact (h.sep 0 a b a' b' (by simp) (by simpa using hb)).2
  · intro k a1 b1 a2 b2 h1 h2
    exact h.sep (k + 1) a1 b1 a2 b2 (by simpa using h1) (by simpa using h2)
  · intro a' b' hb
    exact h.last a' b' (by rw [List.getLast?_cons_cons]; exact hb)

/-- specification ⟹ model -/
theorem commaSeparated_splits : ∀ (bounds : List (Nat × Nat)) (start : Nat) (items : List Item),
    CommaSeparatedFrom toks o start items bounds → C15a.Splits toks o start items
  | [], start, items, h => by
      have := h.same_len
      cases items with
      | nil => exact .done (h.empty rfl)
      | cons _ _ => simp at this
  | [(a, b)], start, items, h => by
      have hl := h.same_len
      cases items with
      | nil => simp at hl
      | cons it rest =>
        cases rest with
        | cons _ _ => simp at hl
        | nil =>
          have ha : a = start := h.first a b (by simp)
          subst ha
          have hr := (reads_iff_itemAt toks o _ _ _).mp (h.reads 0 a b it (by simp) (by simp))
          cases h.last a b (by simp) with
          | inl hb => exact .last (by omega) hr.1 (by omega)
          | inr hb =>
              have hlt := punctAt_lt toks hb.1
              exact .cons (by omega) hr.1 hlt ((isComma_iff toks b).mpr hb.1) (.done (by omega))
  | (a, b) :: b0 :: bs, start, items, h => by
      have hl := h.same_len
      cases items with
      | nil => simp at hl
      | cons it rest =>
          have ha : a = start := h.first a b (by simp)
          subst ha
          have hr := (reads_iff_itemAt toks o _ _ _).mp (h.reads 0 a b it (by simp) (by simp))
          obtain ⟨a', b'⟩ := b0
          have hsep := h.sep 0 a b a' b' (by simp) (by simp)
          have hlt := punctAt_lt toks hsep.1
          exact .cons (by omega) hr.1 hlt ((isComma_iff toks b).mpr hsep.1)
            (commaSeparated_splits ((a', b') :: bs) (b + 1) rest (commaSeparated_tail toks o h))

/-- **Clause (a), end to end.**  `parse_meta_list` returns `items` exactly when the stream is a
    comma-separated sequence (optional trailing comma, possibly empty) of literals and meta
    items, and `items` are those elements in source order. -/
theorem parseList_ok_iff_commaSeparated (hs : OracleSane toks o) (items : List Item) :
    parseList toks o = .ok items ↔ ∃ bounds, CommaSeparatedFrom toks o 0 items bounds := by
  rw [C15a.parse_ok_iff]
  exact ⟨splits_commaSeparated toks o hs, fun ⟨bounds, h⟩ => commaSeparated_splits toks o bounds 0 items h⟩

/-- the direction that needs no assumption on the oracle -/
theorem commaSeparated_parseList (items : List Item) (bounds : List (Nat × Nat))
    (h : CommaSeparatedFrom toks o 0 items bounds) : parseList toks o = .ok items :=
  (C15a.parse_ok_iff toks o items).mpr (commaSeparated_splits toks o bounds 0 items h)

/-! ### order is kept -/

theorem reads_lt {a b : Nat} {it : Item} (h : Reads toks o a b it) : a < b := by
  cases h <;> omega

theorem item_of_bound {start : Nat} {items : List Item} {bounds : List (Nat × Nat)}
    (h : CommaSeparatedFrom toks o start items bounds) {k : Nat} {p : Nat × Nat} (hb : bounds[k]? = some p) :
    ∃ it, items[k]? = some it := by
  have hk : k < bounds.length := (List.getElem?_eq_some_iff.mp hb).1
  have hk' : k < items.length := by rw [← h.same_len]; exact hk
  exact ⟨items[k], List.getElem?_eq_getElem hk'⟩

theorem bound_lt {start : Nat} {items : List Item} {bounds : List (Nat × Nat)}
    (h : CommaSeparatedFrom toks o start items bounds) {k a b : Nat} (hb : bounds[k]? = some (a, b)) : a < b := by
  obtain ⟨it, hit⟩ := item_of_bound toks o h hb
  exact reads_lt toks o (h.reads k a b it hb hit)

/-- **order is kept**: an earlier element of the result ends (and its comma too) before a later
    one begins -/
theorem ends_before {start : Nat} {items : List Item} {bounds : List (Nat × Nat)}
    (h : CommaSeparatedFrom toks o start items bounds) :
    ∀ (d k a b a' b' : Nat), bounds[k]? = some (a, b) → bounds[k + d + 1]? = some (a', b') → b < a' := by
  intro d
  induction d with
  | zero =>
      intro k a b a' b' h1 h2
      have := (h.sep k a b a' b' h1 h2).2
      omega
  | succ d ih =>
      intro k a b a' b' h1 h2
      have hk : k + (d + 1) + 1 < bounds.length := (List.getElem?_eq_some_iff.mp h2).1
      have hk' : k + d + 1 < bounds.length := by omega
      have hmid : bounds[k + d + 1]? = some (bounds[k + d + 1].1, bounds[k + d + 1].2) := List.getElem?_eq_getElem hk'
      have h3 := ih k a b _ _ h1 hmid
      have h4 := bound_lt toks o h hmid
      have h5 := (h.sep (k + d + 1) _ _ a' b' hmid h2).2
      omega

theorem end_le_last {start : Nat} {items : List Item} {bounds : List (Nat × Nat)}
    (h : CommaSeparatedFrom toks o start items bounds) {k a b al bl : Nat}
    (hb : bounds[k]? = some (a, b)) (hl : bounds.getLast? = some (al, bl)) : b ≤ bl := by
  rw [List.getLast?_eq_getElem?] at hl
  have hk : k < bounds.length := (List.getElem?_eq_some_iff.mp hb).1
  by_cases hlast : k = bounds.length - 1
  · subst hlast
    rw [hb] at hl
    cases hl
    omega
  · have hidx : bounds.length - 1 = k + (bounds.length - 1 - k - 1) + 1 := by omega
    rw [hidx] at hl
    have h1 := ends_before toks o h _ k a b al bl hb hl
    have h2 := bound_lt toks o h hl
    omega

end Split

/-! ## Part B — printing and re-parsing

  Printing the parsed elements separated by commas (`quote!(#(#items),*)`) gives back the stream
  without its optional trailing comma (each element prints as the tokens it was read from — syn's
  own print/parse law for `Lit` and `Meta`).  So "print, then re-parse, is the identity" is: the
  stream without the trailing comma parses to the same elements.  In the second stream syn's
  parsers are asked again (oracle `o'`); the theorem needs them to answer as before at the
  positions where elements start.  They do not always (see `negative_value_not_stable`). -/

/-- `c` is a comma token -/
def IsCommaTok (c : Tok) : Prop := ∃ jt, c.kind = .punct ',' jt

section RoundTrip
variable (body : List Tok) (c : Tok)

theorem lookup_snoc_ne {k : Nat} (hk : k ≠ body.length) : (body ++ [c])[k]? = body[k]? := by
  by_cases h : k < body.length
  · exact List.getElem?_append_left h
  · rw [List.getElem?_eq_none (by simp; omega), List.getElem?_eq_none (by omega)]

theorem identAt_snoc (hc : IsCommaTok c) (k : Nat) : IdentAt (body ++ [c]) k ↔ IdentAt body k := by
  unfold IdentAt
  by_cases hk : k = body.length
  · subst hk
    rw [List.getElem?_concat_length, List.getElem?_eq_none (Nat.le_refl _)]
    obtain ⟨jt, hc⟩ := hc
    constructor
    · rintro ⟨w, sp, h⟩; cases h; simp at hc
    · rintro ⟨w, sp, h⟩; cases h
  · rw [lookup_snoc_ne body c hk]

theorem wordAt_snoc (hc : IsCommaTok c) (k : Nat) (w : String) : WordAt (body ++ [c]) k w ↔ WordAt body k w := by
  unfold WordAt
  by_cases hk : k = body.length
  · subst hk
    rw [List.getElem?_concat_length, List.getElem?_eq_none (Nat.le_refl _)]
    obtain ⟨jt, hc⟩ := hc
    constructor
    · rintro ⟨sp, h⟩; cases h; simp at hc
    · rintro ⟨sp, h⟩; cases h
  · rw [lookup_snoc_ne body c hk]

theorem punctAt_snoc (hc : IsCommaTok c) (k : Nat) (ch : Char) (hch : ch ≠ ',') :
    PunctAt (body ++ [c]) k ch ↔ PunctAt body k ch := by
  unfold PunctAt
  by_cases hk : k = body.length
  · subst hk
    rw [List.getElem?_concat_length, List.getElem?_eq_none (Nat.le_refl _)]
    obtain ⟨jt, hc⟩ := hc
    constructor
    · rintro ⟨jt', sp, h⟩; cases h; simp at hc; exact absurd hc.1 hch
    · rintro ⟨jt', sp, h⟩; cases h
  · rw [lookup_snoc_ne body c hk]

theorem jointColonAt_snoc (hc : IsCommaTok c) (k : Nat) :
    (∃ sp, (body ++ [c])[k]? = some ⟨.punct ':' true, sp⟩) ↔ (∃ sp, body[k]? = some ⟨.punct ':' true, sp⟩) := by
  by_cases hk : k = body.length
  · subst hk
    rw [List.getElem?_concat_length, List.getElem?_eq_none (Nat.le_refl _)]
    obtain ⟨jt, hc⟩ := hc
    constructor
    · rintro ⟨sp, h⟩; cases h; simp at hc
    · rintro ⟨sp, h⟩; cases h
  · rw [lookup_snoc_ne body c hk]

theorem pathStartAt_snoc (hc : IsCommaTok c) (k : Nat) : PathStartAt (body ++ [c]) k ↔ PathStartAt body k := by
  unfold PathStartAt PathSepAt
  rw [identAt_snoc body c hc, identAt_snoc body c hc, jointColonAt_snoc body c hc,
    punctAt_snoc body c hc _ _ (by decide)]

theorem boolNameAt_snoc (hc : IsCommaTok c) (k : Nat) : BoolNameAt (body ++ [c]) k ↔ BoolNameAt body k := by
  unfold BoolNameAt
  rw [wordAt_snoc body c hc, wordAt_snoc body c hc, punctAt_snoc body c hc _ _ (by decide)]

/-- an element read in the longer stream is read in the shorter one, if syn's parsers answer
    the same at its start -/
theorem reads_snoc (hc : IsCommaTok c) (o o' : SynOracle) {a b : Nat} {it : Item}
    (hl : o'.lit a = o.lit a) (hm : o'.meta_ a = o.meta_ a)
    (h : Reads (body ++ [c]) o a b it) : Reads body o' a b it := by
  cases h with
  | literal hlit ho hpos =>
      refine .literal ⟨?_, ?_⟩ (hl ▸ ho) hpos
      · rw [hl]; exact hlit.1
      · rw [← boolNameAt_snoc body c hc]; exact hlit.2
  | item hnl hp ho hpos =>
      refine .item ?_ ((pathStartAt_snoc body c hc a).mp hp) (hm ▸ ho) hpos
      intro hx
      apply hnl
      refine ⟨?_, ?_⟩
      · rw [← hl]; exact hx.1
      · rw [boolNameAt_snoc body c hc]; exact hx.2

/-- **Clause "printing then re-parsing is the identity", under a side condition.**  A list with a trailing
    comma, printed (= without that comma) and parsed again, gives the same elements at the same
    places — PROVIDED syn's `Lit` / `Meta` parsers answer in the shorter stream what they
    answered in the longer one at every element start (`hagree`).  `htrail`: the final comma is
    the list's trailing comma (the last element ends just before it). -/
theorem drop_trailing_comma_partial (hc : IsCommaTok c) (o o' : SynOracle)
    (items : List Item) (bounds : List (Nat × Nat))
    (h : CommaSeparatedFrom (body ++ [c]) o 0 items bounds)
    (htrail : ∀ (a b : Nat), bounds.getLast? = some (a, b) → b = body.length)
    (hagree : ∀ (k a b : Nat), bounds[k]? = some (a, b) → o'.lit a = o.lit a ∧ o'.meta_ a = o.meta_ a) :
    CommaSeparatedFrom body o' 0 items bounds := by
  have hlast_some : ∀ {k : Nat} {p : Nat × Nat}, bounds[k]? = some p → ∃ al bl, bounds.getLast? = some (al, bl) := by
    intro k p hk
    have hk' : k < bounds.length := (List.getElem?_eq_some_iff.mp hk).1
    rw [List.getLast?_eq_getElem?]
    exact ⟨_, _, List.getElem?_eq_getElem (by omega)⟩
  refine ⟨h.same_len, ?_, h.first, ?_, ?_, ?_⟩
  · intro k a b it hb hi
    have hag := hagree k a b hb
    exact reads_snoc body c hc o o' hag.1 hag.2 (h.reads k a b it hb hi)
  · intro k a b a' b' h1 h2
    obtain ⟨hp, ha'⟩ := h.sep k a b a' b' h1 h2
    refine ⟨?_, ha'⟩
    obtain ⟨al, bl, hl⟩ := hlast_some h2
    have hbl := htrail al bl hl
    have h3 := end_le_last _ o h h2 hl
    have h4 := bound_lt _ o h h2
    obtain ⟨jt, sp, hp⟩ := hp
    exact ⟨jt, sp, by rw [← lookup_snoc_ne body c (by omega)]; exact hp⟩
  · intro a b hl
    exact .inl (htrail a b hl)
  · intro hb
    have := h.empty hb
    simp at this

/-- the same on the model: if the stream with its trailing comma is a list (specification),
    the stream without it parses, to the same elements -/
theorem parse_drop_trailing_comma_partial (hc : IsCommaTok c) (o o' : SynOracle)
    (items : List Item) (bounds : List (Nat × Nat))
    (h : CommaSeparatedFrom (body ++ [c]) o 0 items bounds)
    (htrail : ∀ (a b : Nat), bounds.getLast? = some (a, b) → b = body.length)
    (hagree : ∀ (k a b : Nat), bounds[k]? = some (a, b) → o'.lit a = o.lit a ∧ o'.meta_ a = o.meta_ a) :
    parseList (body ++ [c]) o = .ok items ∧ parseList body o' = .ok items :=
  ⟨commaSeparated_parseList _ o items bounds h,
   commaSeparated_parseList _ o' items bounds (drop_trailing_comma_partial body c hc o o' items bounds h htrail hagree)⟩

end RoundTrip

/-! ### Parts A and B: examples (non-vacuity of every hypothesis, the text's classification
    cases, and the discrepancies) -/
section ExamplesAB

private def tk (k : TokKind) : Tok := ⟨k, ⟨0, 0⟩⟩
private def comma : Tok := tk (.punct ',' false)

/-- `a,` with syn's answers for it -/
private def sA : List Tok := [tk (.ident "a")]
private def oA : SynOracle :=
  { lit := fun _ => none, meta_ := fun i => if i = 0 then .ok (1, "a") else .error ("expected path", none) }

private theorem oA_sane (extra : List Tok) : OracleSane (sA ++ extra) oA := by
  constructor
  · intro i len s h; simp [oA] at h
  · intro i len s h
    simp only [oA] at h
    split at h
    · cases h; subst_vars; simp [sA]
    · cases h

private theorem specA : CommaSeparatedFrom (sA ++ [comma]) oA 0 [.item "a"] [(0, 1)] := by
  refine ⟨rfl, ?_, ?_, ?_, ?_, by simp⟩
  · intro k a b it hb hi
    cases k with
    | zero =>
        simp only [List.getElem?_cons_zero, Option.some.injEq, Prod.mk.injEq] at hb hi
        obtain ⟨rfl, rfl⟩ := hb
        subst hi
        exact .item (len := 1) (fun h => by simp [LiteralAt, oA] at h) (.inl ⟨"a", ⟨0, 0⟩, rfl⟩) rfl (by decide)
    | succ k => simp at hb
  · intro a b hb
    simp only [List.getElem?_cons_zero, Option.some.injEq, Prod.mk.injEq] at hb
    exact hb.1.symm
  · intro k a b a' b' _ hb'
    simp at hb'
  · intro a b hb
    simp only [List.getLast?_singleton, Option.some.injEq, Prod.mk.injEq] at hb
    obtain ⟨rfl, rfl⟩ := hb
    exact .inr ⟨⟨false, ⟨0, 0⟩, rfl⟩, rfl⟩

/-- non-vacuity of `parseList_ok_iff_commaSeparated`: a sane oracle, both sides hold -/
example : OracleSane (sA ++ [comma]) oA ∧ parseList (sA ++ [comma]) oA = .ok [.item "a"] ∧
    ∃ bounds, CommaSeparatedFrom (sA ++ [comma]) oA 0 [.item "a"] bounds :=
  ⟨oA_sane [comma], rfl, (parseList_ok_iff_commaSeparated _ _ (oA_sane [comma]) _).mp rfl⟩

/-- non-vacuity of `drop_trailing_comma_partial` (all three hypotheses hold): `a,` ↦ `a` -/
example : parseList (sA ++ [comma]) oA = .ok [.item "a"] ∧ parseList sA oA = .ok [.item "a"] :=
  parse_drop_trailing_comma_partial sA comma ⟨false, rfl⟩ oA oA [.item "a"] [(0, 1)] specA
    (by intro a b h; simp only [List.getLast?_singleton, Option.some.injEq, Prod.mk.injEq] at h; exact h.2.symm)
    (fun _ _ _ _ => ⟨rfl, rfl⟩)

/-- the empty stream is the empty list; a lone comma is not a list -/
example : parseList [] oA = .ok [] := rfl
example : parseList [comma] oA = .error ("expected identifier or literal", some ⟨0, 0⟩) := rfl

/-- "`true` alone is a literal", "`true = 1` is classified as an item" (and then it is up to
    syn's `Meta` parser, which refuses a keyword as a name) -/
private def oTrue : SynOracle :=
  { lit := fun i => if i = 0 then some (1, "true") else if i = 2 then some (1, "1") else none,
    meta_ := fun _ => .error ("expected path", none) }
example : parseList [tk (.ident "true")] oTrue = .ok [.lit "true"] := rfl
example : branch [tk (.ident "true"), tk (.punct '=' false), tk .literal] oTrue 0 = .item := rfl
example : parseList [tk (.ident "true"), tk (.punct '=' false), tk .literal] oTrue = .error ("expected path", none) := rfl

/-- "a path starting with `::` or a keyword is an item": `::crate::x`, `self` -/
private def oPath (len : Nat) (s : String) : SynOracle :=
  { lit := fun _ => none, meta_ := fun i => if i = 0 then .ok (len, s) else .error ("expected path", none) }
example : parseList [tk (.punct ':' true), tk (.punct ':' false), tk (.ident "crate"), tk (.punct ':' true),
    tk (.punct ':' false), tk (.ident "x")] (oPath 6 ":: crate :: x") = .ok [.item ":: crate :: x"] := rfl
example : parseList [tk (.ident "self")] (oPath 1 "self") = .ok [.item "self"] := rfl
/-- `: :a` (colons not glued) is not a path -/
example : parseList [tk (.punct ':' false), tk (.punct ':' false), tk (.ident "a")] (oPath 3 ":: a")
    = .error ("expected identifier or literal", some ⟨0, 0⟩) := rfl

/-- why `OracleSane` is needed: the model treats "the parser ran past the end" as "the stream
    ended" — an artefact of the totalised model, not of the library -/
private def oWild : SynOracle := { lit := fun i => if i = 0 then some (5, "x") else none, meta_ := fun _ => .error ("", none) }
example : parseList [tk .literal] oWild = .ok [.lit "x"] := rfl
example : ¬ ∃ bounds, CommaSeparatedFrom [tk .literal] oWild 0 [.lit "x"] bounds := by
  rintro ⟨bounds, h⟩
  match bounds, h with
  | [], h => have := h.same_len; simp at this
  | [(a, b)], h =>
      have ha := h.first a b rfl
      have hr := h.reads 0 a b (.lit "x") rfl rfl
      have hl := h.last a b rfl
      subst ha
      cases hr with
      | literal _ ho _ =>
          simp only [oWild, if_true, Option.some.injEq, Prod.mk.injEq] at ho
          simp at hl
          omega
  | _ :: _ :: _, h => have := h.same_len; simp at this

/-- **DISCREPANCY 1 (round trip; reproduces on the library).**  `a = -1,`: while anything
    follows the value — the trailing comma counts — syn's `Meta` parser reads it as the
    expression `-1` (`Expr::Unary`); in the printed stream `a = - 1` nothing follows, and the
    same parser reads the *literal* `-1` (`Expr::Lit`).  The oracle strings below name the tree
    that was read.  The two lists differ, so print-then-re-parse is not the identity, and
    `hagree` of `drop_trailing_comma_partial` fails at position 0. -/
private def sNeg : List Tok := [tk (.ident "a"), tk (.punct '=' false), tk (.punct '-' false), tk .literal]
private def oNegComma : SynOracle :=
  { lit := fun i => if i = 2 then some (2, "-1") else if i = 3 then some (1, "1") else none,
    meta_ := fun i => if i = 0 then .ok (4, "a = Expr::Unary(Neg, Lit 1)") else .error ("expected path", none) }
private def oNegAlone : SynOracle :=
  { lit := fun i => if i = 2 then some (2, "-1") else if i = 3 then some (1, "1") else none,
    meta_ := fun i => if i = 0 then .ok (4, "a = Expr::Lit(-1)") else .error ("expected path", none) }
theorem negative_value_not_stable :
    parseList (sNeg ++ [comma]) oNegComma = .ok [.item "a = Expr::Unary(Neg, Lit 1)"] ∧
    parseList sNeg oNegAlone = .ok [.item "a = Expr::Lit(-1)"] ∧
    oNegAlone.meta_ 0 ≠ oNegComma.meta_ 0 :=
  ⟨rfl, rfl, by simp [oNegAlone, oNegComma]⟩

/-- **MODEL LIMITATION (outside the quantified grammar).**  A token stream can contain an
    invisible (None-delimited) group; the real parser looks through it (`⟦a⟧` is the item `a`,
    `⟦a, b⟧` even two items), the token model has a single opaque `group` kind and rejects. -/
example : parseList [tk .group] (oPath 1 "a") = .error ("expected identifier or literal", some ⟨0, 0⟩) := rfl

end ExamplesAB

/-! ## Part C — routing: one hook per item, chosen by the item's form alone -/
section Routing
open Spec.C15
variable {α : Type}

/-- the seven hooks of the statement -/
inductive HookId where
  | word | list | bool | string | char | literal | expr
  deriving DecidableEq, Repr

/-- the subset of hooks an implementer overrides -/
def overridden (h : Hooks α) : HookId → Bool
  | .word => h.fromWord?.isSome
  | .list => h.fromList?.isSome
  | .bool => h.fromBool?.isSome
  | .string => h.fromString?.isSome
  | .char => h.fromChar?.isSome
  | .literal => h.fromValue?.isSome
  | .expr => h.fromExpr?.isSome

/-- the seven forms of the statement -/
inductive FormTag where
  | word | list | bool | string | char | otherLit | nonLit
  deriving DecidableEq, Repr

/-- the hooks that may serve a form, the most general first.  `asValue`: the literal is the
    value of `name = …`, an expression, so the expression hook comes before the literal hooks;
    a literal standing directly in a list is not an expression. -/
def candidates (asValue : Bool) : FormTag → List HookId
  | .word => [.word]
  | .list => [.list]
  | .bool => (if asValue then [.expr] else []) ++ [.literal, .bool]
  | .string => (if asValue then [.expr] else []) ++ [.literal, .string]
  | .char => (if asValue then [.expr] else []) ++ [.literal, .char]
  | .otherLit => (if asValue then [.expr] else []) ++ [.literal]
  | .nonLit => [.expr]

/-- **the routing table**: a function of the override subset and the form — nothing else.
    `none`: no candidate is overridden, the item is rejected by a default. -/
def selected (ov : HookId → Bool) (asValue : Bool) (t : FormTag) : Option HookId :=
  (candidates asValue t).find? ov

def tagOf : Form → Option FormTag
  | .word => some .word
  | .list _ => some .list
  | .unparsableList _ _ => none
  | .boolLit _ _ => some .bool
  | .strLit _ _ => some .string
  | .charLit _ _ => some .char
  | .otherLit _ => some .otherLit
  | .nonLit _ => some .nonLit

def litOf : Form → Option Lit
  | .boolLit _ l | .strLit _ l | .charLit _ l | .otherLit l => some l
  | _ => none

/-- the form of a list element: an item's form, or the literal's -/
def formOfItem : NestedMeta → Form
  | .item m => formOf m
  | .lit l => litForm l

/-- the value expression as written (invisible groups included), for `name = value` -/
def writtenValue : NestedMeta → Option Expr
  | .item (.nameValue _ e _ _) => some e
  | _ => none

/-- hand the item's content to hook `id`, if the implementer overrides it and it fits the form -/
def callHook (h : Hooks α) (written : Option Expr) (f : Form) : HookId → Option (Outcome α)
  | .word => (match f with | .word => h.fromWord? | _ => none)
  | .list => (match f with | .list items => h.fromList?.map (fun g => g items) | _ => none)
  | .bool => (match f with | .boolLit b _ => h.fromBool?.map (fun g => g b) | _ => none)
  | .string => (match f with | .strLit s _ => h.fromString?.map (fun g => g s) | _ => none)
  | .char => (match f with | .charLit c _ => h.fromChar?.map (fun g => g c) | _ => none)
  | .literal => (match litOf f with | some l => h.fromValue?.map (fun g => g l) | none => none)
  | .expr => (match written with | some e => h.fromExpr?.map (fun g => g e) | none => none)

/-- "every hook left at its default rejects with the documented kind of error" -/
def defaultError : Form → Err
  | .word => .leaf (.unexpectedFormat "word") [] none                  -- `unsupported_format("word")`
  | .list _ => .leaf (.unexpectedFormat "list") [] none                -- `unsupported_format("list")`
  | .boolLit _ _ => .leaf (.unexpectedType "bool") [] none             -- `unexpected_type("bool")`
  | .strLit _ _ => .leaf (.unexpectedType "string") [] none
  | .charLit _ _ => .leaf (.unexpectedType "char") [] none
  | .otherLit l => .leaf (.unexpectedType l.typeName) [] (some l.span) -- `unexpected_lit_type(lit)`
  | .nonLit e => .leaf (.unexpectedType e.kindName) [] (some e.span)   -- `unexpected_expr_type(expr)`
  | .unparsableList msg sp => .leaf (.custom msg) [] (some sp)          -- the list parser's own error

/-- what comes back before any span is attached: the outcome of the one selected hook, or the
    default rejection.  `written`: the value as written, for `name = value`; `f`: the form. -/
def innerOf (h : Hooks α) (written : Option Expr) (f : Form) : Outcome α :=
  match tagOf f with
  | none => .err (defaultError f)
  | some t =>
      match selected (overridden h) written.isSome t with
      | some id => (callHook h written f id).getD (.err (defaultError f))
      | none => .err (defaultError f)

/-- the span a span-less error receives: the literal's when a literal hook (or its default) is
    reached, the whole item's otherwise -/
def attachedOf (h : Hooks α) (written : Option Expr) (f : Form) (itemSpan : Span) : Span :=
  match litOf f, (tagOf f).bind (selected (overridden h) written.isSome) with
  | some _, some .expr => itemSpan
  | some l, _ => l.span
  | none, _ => itemSpan

def inner (h : Hooks α) (n : NestedMeta) : Outcome α := innerOf h (writtenValue n) (formOfItem n)
def attachedSpan (h : Hooks α) (n : NestedMeta) : Span := attachedOf h (writtenValue n) (formOfItem n) n.span

/-- the precise specification -/
def routed (h : Hooks α) (n : NestedMeta) : Outcome α := (inner h n).mapErr (·.withSpan (attachedSpan h n))

/-- the specification as the statement words it: "… comes back carrying the item's span" -/
def routedText (h : Hooks α) (n : NestedMeta) : Outcome α := (inner h n).mapErr (·.withSpan n.span)

/-! ### model = specification -/

theorem exprTerminalD_ungroup (h : Hooks α) : (e : Expr) → exprTerminalD h e = exprTerminalD h (ungroup e)
  | .lit _ => rfl
  | .group g _ => by simp only [exprTerminalD, ungroup]; exact exprTerminalD_ungroup h g
  | .path _ _ => rfl
  | .qpath _ _ _ => rfl
  | .array _ _ _ => rfl
  | .other _ _ _ => rfl

/-- the literal hooks: generic-literal hook first, then the hook of the literal's kind -/
theorem litChain (h : Hooks α) (l : Lit) (w : Option Expr) (sp : Span) (hx : w = none ∨ h.fromExpr? = none) :
    litTerminal h l = innerOf h w (litForm l) ∧ attachedOf h w (litForm l) sp = l.span := by
  have hsel : ∀ t rest, (candidates w.isSome t = (if w.isSome then [HookId.expr] else []) ++ rest) →
      selected (overridden h) w.isSome t = rest.find? (overridden h) := by
    intro t rest hc
    unfold selected
    rw [hc]
    cases hx with
    | inl hw => subst hw; rfl
    | inr hx => cases w <;> simp [overridden, hx]
  have s1 := hsel .bool [.literal, .bool] rfl
  have s2 := hsel .string [.literal, .string] rfl
  have s3 := hsel .char [.literal, .char] rfl
  have s4 := hsel .otherLit [.literal] rfl
  unfold litTerminal innerOf attachedOf
  cases hv : h.fromValue? with
  | some f =>
      cases hl : l.v <;>
        simp [litForm, hl, tagOf, litOf, s1, s2, s3, s4, List.find?, overridden, hv, callHook]
  | none =>
      cases hl : l.v with
      | bool b => cases hb : h.fromBool? <;>
          simp [litForm, hl, tagOf, litOf, s1, List.find?, overridden, hv, hb, callHook, defaultError, Err.new]
      | str s => cases hb : h.fromString? <;>
          simp [litForm, hl, tagOf, litOf, s2, List.find?, overridden, hv, hb, callHook, defaultError, Err.new]
      | char c => cases hb : h.fromChar? <;>
          simp [litForm, hl, tagOf, litOf, s3, List.find?, overridden, hv, hb, callHook, defaultError, Err.new]
      | _ =>
          simp [litForm, hl, tagOf, litOf, s4, List.find?, overridden, hv, defaultError,
            Err.unexpectedLitType]

/-- with the expression hook overridden, every `name = value` item goes to it, as written -/
theorem exprHook_takes_all (h : Hooks α) (g : Expr → Outcome α) (hx : h.fromExpr? = some g) (e : Expr) (sp : Span) :
    innerOf h (some e) (exprForm e) = g e ∧ attachedOf h (some e) (exprForm e) sp = sp := by
  unfold exprForm innerOf attachedOf
  cases ungroup e with
  | lit l =>
      simp only [litForm]
      cases l.v <;> simp [tagOf, litOf, selected, candidates, overridden, hx, callHook]
  | _ => simp [tagOf, litOf, selected, candidates, overridden, hx, callHook]

/-- **Routing, end to end (model = precise specification).**  For every implementer that keeps
    `from_nested_meta` / `from_meta` at their defaults — any subset of the seven hooks
    overridden, with arbitrary bodies — and every list element. -/
theorem route_eq (h : Hooks α) (hm : h.fromMeta? = none) (hn : h.fromNestedMeta? = none) (n : NestedMeta) :
    h.fromNestedMeta n = routed h n := by
  cases n with
  | lit l =>
      rw [nested_literal_routes h hn l]
      obtain ⟨h1, h2⟩ := litChain h l none l.span (.inl rfl)
      simp only [routed, inner, attachedSpan, writtenValue, formOfItem, NestedMeta.span]
      rw [← h1, h2]
  | item m =>
      unfold Hooks.fromNestedMeta
      rw [hn]
      simp only [Hooks.fromNestedMetaD, NestedMeta.span]
      unfold Hooks.fromMeta
      rw [hm]
      cases m with
      | path p =>
          simp only [Hooks.fromMetaD, Meta.span, mapErr_mapErr]
          cases hw : h.fromWord? <;>
            simp [routed, inner, innerOf, attachedSpan, attachedOf, formOfItem, formOf, writtenValue, tagOf, litOf,
              selected, candidates, List.find?, overridden, hw, callHook, defaultError, Hooks.fromWord,
              Err.unsupportedFormat, Err.new, NestedMeta.span, Meta.span]
      | list p items bad ts t s =>
          cases bad with
          | none =>
              simp only [Hooks.fromMetaD, Meta.span, mapErr_mapErr]
              cases hw : h.fromList? <;>
                simp [routed, inner, innerOf, attachedSpan, attachedOf, formOfItem, formOf, writtenValue, tagOf, litOf,
                  selected, candidates, List.find?, overridden, hw, callHook, defaultError, Hooks.fromList,
                  Err.unsupportedFormat, Err.new, NestedMeta.span, Meta.span]
          | some b =>
              obtain ⟨msg, sp⟩ := b
              simp [Hooks.fromMetaD, routed, inner, innerOf, formOfItem, formOf,
                tagOf, defaultError, Outcome.mapErr, Err.withSpan]
      | nameValue p e t s =>
          simp only [Hooks.fromMetaD, Meta.span, mapErr_mapErr, Hooks.fromExpr, routed, inner, attachedSpan,
            writtenValue, formOfItem, formOf, NestedMeta.span]
          cases hx : h.fromExpr? with
          | some g =>
              obtain ⟨h1, h2⟩ := exprHook_takes_all h g hx e s
              rw [h1, h2]
          | none =>
              simp only []
              rw [fromExprD_routes, mapErr_mapErr, exprTerminalD_ungroup]
              unfold exprForm
              cases hu : ungroup e with
              | lit l =>
                  obtain ⟨h1, h2⟩ := litChain h l (some e) s (.inr hx)
                  simp only [exprTerminalD]
                  rw [← h1, h2]
              | group g gs => exact absurd hu (ungroup_not_group e g gs)
              | path q qs =>
                  simp [exprTerminalD, innerOf, tagOf, selected, candidates, List.find?, overridden, hx,
                    defaultError, Err.unexpectedExprType, Outcome.mapErr, Err.withSpan, Expr.kindName, Expr.span]
              | qpath q qt qs =>
                  simp [exprTerminalD, innerOf, tagOf, selected, candidates, List.find?, overridden, hx,
                    defaultError, Err.unexpectedExprType, Outcome.mapErr, Err.withSpan, Expr.kindName, Expr.span]
              | array es at' as' =>
                  simp [exprTerminalD, innerOf, tagOf, selected, candidates, List.find?, overridden, hx,
                    defaultError, Err.unexpectedExprType, Outcome.mapErr, Err.withSpan, Expr.kindName, Expr.span]
              | other k ot os =>
                  simp [exprTerminalD, innerOf, tagOf, selected, candidates, List.find?, overridden, hx,
                    defaultError, Err.unexpectedExprType, Outcome.mapErr, Err.withSpan, Expr.kindName, Expr.span]

/-! ### exactly one hook, chosen by the form alone -/

/-- the hook an item is routed to -/
def hookOf (h : Hooks α) (n : NestedMeta) : Option HookId :=
  (tagOf (formOfItem n)).bind (selected (overridden h) (writtenValue n).isSome)

/-- **by its form alone**: two items of the same form, given to two implementers overriding the
    same subset of hooks, are routed to the same hook -/
theorem hookOf_form_alone {β : Type} (h : Hooks α) (h' : Hooks β) (n n' : NestedMeta)
    (hsub : overridden h = overridden h') (htag : tagOf (formOfItem n) = tagOf (formOfItem n'))
    (hpos : (writtenValue n).isSome = (writtenValue n').isSome) : hookOf h n = hookOf h' n' := by
  unfold hookOf
  rw [hsub, htag, hpos]

theorem nonLit_has_value (n : NestedMeta) (h : tagOf (formOfItem n) = some .nonLit) : (writtenValue n).isSome = true := by
  cases n with
  | lit l => simp only [formOfItem, litForm] at h; cases hl : l.v <;> simp [hl, tagOf] at h
  | item m =>
      cases m with
      | path p => simp [formOfItem, formOf, tagOf] at h
      | list p items bad ts t s => cases bad <;> simp [formOfItem, formOf, tagOf] at h
      | nameValue p e t s => rfl

theorem callHook_isSome (h : Hooks α) (w : Option Expr) (f : Form) (t : FormTag) (id : HookId)
    (ht : tagOf f = some t) (hw : t = .nonLit → w.isSome = true)
    (hmem : id ∈ candidates w.isSome t) (hov : overridden h id = true) :
    (callHook h w f id).isSome = true := by
  cases f <;> simp only [tagOf, Option.some.injEq, reduceCtorEq] at ht <;> subst ht <;> cases w <;>
    simp [candidates] at hmem hw <;> (try rcases hmem with hmem | hmem | hmem) <;> subst_vars <;>
    simpa [callHook, litOf, overridden] using hov

/-- **exactly one hook**: the outcome is what the selected hook returns, given the item's
    content (`callHook` of that one hook); … -/
theorem inner_of_hook (h : Hooks α) (n : NestedMeta) (id : HookId) (hsel : hookOf h n = some id) :
    overridden h id = true ∧ ∃ r, callHook h (writtenValue n) (formOfItem n) id = some r ∧ inner h n = r := by
  unfold hookOf at hsel
  cases ht : tagOf (formOfItem n) with
  | none => simp [ht] at hsel
  | some t =>
      simp only [ht, Option.bind_some] at hsel
      have hfound := hsel
      unfold selected at hfound
      have hov : overridden h id = true := List.find?_some hfound
      have hmem : id ∈ candidates (writtenValue n).isSome t := List.mem_of_find?_eq_some hfound
      have hsome := callHook_isSome h (writtenValue n) (formOfItem n) t id ht
        (fun ht' => nonLit_has_value n (ht' ▸ ht)) hmem hov
      refine ⟨hov, ?_⟩
      cases hc : callHook h (writtenValue n) (formOfItem n) id with
      | none => simp [hc] at hsome
      | some r => exact ⟨r, rfl, by simp [inner, innerOf, ht, hsel, hc]⟩

/-- … and when no hook on the item's path is overridden, the documented default rejection -/
theorem inner_of_no_hook (h : Hooks α) (n : NestedMeta) (hsel : hookOf h n = none) :
    inner h n = .err (defaultError (formOfItem n)) := by
  unfold hookOf at hsel
  unfold inner innerOf
  cases ht : tagOf (formOfItem n) with
  | none => rfl
  | some t =>
      simp only [ht, Option.bind_some] at hsel
      simp [hsel]

/-- an implementer overriding nothing rejects every item with the default of its form -/
theorem all_defaults_reject (h : Hooks α) (hnone : ∀ id, overridden h id = false) (n : NestedMeta) :
    inner h n = .err (defaultError (formOfItem n)) := by
  apply inner_of_no_hook
  unfold hookOf
  cases tagOf (formOfItem n) with
  | none => rfl
  | some t =>
      simp only [Option.bind_some, selected]
      exact List.find?_eq_none.mpr (fun id _ => by simp [hnone id])

/-! ### the statement's wording of the span clause -/

/-- a span-less error -/
def SpanlessErr (r : Outcome α) : Prop := ∃ e, r = .err e ∧ e.span = none

theorem withSpan_of_spanned {e : Err} {s : Span} (h : e.span = some s) (a : Span) : e.withSpan a = e := by
  cases e with
  | leaf k ls sp => cases sp <;> simp_all [Err.withSpan, Err.span]
  | multi cs ls sp => cases sp <;> simp_all [Err.withSpan, Err.span]

theorem withSpan_inj_of_spanless {e : Err} (h : e.span = none) (a b : Span) : e.withSpan a = e.withSpan b ↔ a = b := by
  cases e with
  | leaf k ls sp => cases sp <;> simp_all [Err.withSpan, Err.span]
  | multi cs ls sp => cases sp <;> simp_all [Err.withSpan, Err.span]

/-- `precise specification = statement's wording` exactly when the attached span is the item's,
    or nothing span-less comes back -/
theorem routed_eq_text_iff (h : Hooks α) (n : NestedMeta) :
    routed h n = routedText h n ↔ (attachedSpan h n = n.span ∨ ¬ SpanlessErr (inner h n)) := by
  unfold routed routedText SpanlessErr
  cases hi : inner h n with
  | ok a => simp [Outcome.mapErr]
  | panic m => simp [Outcome.mapErr]
  | err e =>
      simp only [Outcome.mapErr, Outcome.err.injEq]
      cases hs : e.span with
      | none =>
          rw [withSpan_inj_of_spanless hs]
          constructor
          · exact .inl
          · rintro (h1 | h2)
            · exact h1
            · exact absurd ⟨e, rfl, hs⟩ h2
      | some s =>
          rw [withSpan_of_spanned hs, withSpan_of_spanned hs]
          simp only [true_iff]
          right
          rintro ⟨e', he, hs'⟩
          cases he
          rw [hs] at hs'
          cases hs'

/-- **Routing against the statement's wording ("carrying the item's span"), under a side condition.**  The side
    condition is the weakest possible (`route_text_iff`): the span attached is the whole item's,
    or no span-less error comes back. -/
theorem route_text_partial (h : Hooks α) (hm : h.fromMeta? = none) (hn : h.fromNestedMeta? = none) (n : NestedMeta)
    (side : attachedSpan h n = n.span ∨ ¬ SpanlessErr (inner h n)) : h.fromNestedMeta n = routedText h n := by
  rw [route_eq h hm hn n]
  exact (routed_eq_text_iff h n).mpr side

theorem route_text_iff (h : Hooks α) (hm : h.fromMeta? = none) (hn : h.fromNestedMeta? = none) (n : NestedMeta) :
    h.fromNestedMeta n = routedText h n ↔ (attachedSpan h n = n.span ∨ ¬ SpanlessErr (inner h n)) := by
  rw [route_eq h hm hn n]
  exact routed_eq_text_iff h n

/-- where the side condition holds for free: bare words, lists, literals directly in a list,
    non-literal values … -/
theorem attachedSpan_item_of_no_value_literal (h : Hooks α) (n : NestedMeta)
    (hnv : writtenValue n = none ∨ litOf (formOfItem n) = none) : attachedSpan h n = n.span := by
  unfold attachedSpan attachedOf
  cases n with
  | lit l =>
      simp only [formOfItem, writtenValue, NestedMeta.span, litForm]
      cases l.v <;> simp [litOf, tagOf, selected, candidates, List.find?] <;> split <;> simp_all
  | item m =>
      cases hnv with
      | inr hl => simp [hl]
      | inl hw =>
          cases m with
          | path p => simp [formOfItem, formOf, litOf]
          | list p items bad ts t s => cases bad <;> simp [formOfItem, formOf, litOf]
          | nameValue p e t s => simp [writtenValue] at hw

/-- … and every item when the expression hook is overridden -/
theorem attachedSpan_item_of_exprHook (h : Hooks α) (g : Expr → Outcome α) (hx : h.fromExpr? = some g)
    (p : Path) (e : Expr) (t : String) (s : Span) :
    attachedSpan h (.item (.nameValue p e t s)) = s :=
  (exprHook_takes_all h g hx e s).2

end Routing

/-! ### Part C: examples -/
section ExamplesC

private def strLit (v : String) (sp : Span) : Lit := ⟨.str v, "\"" ++ v ++ "\"", sp⟩
/-- `x = "v"`: the item spans bytes 0..7, the literal 4..7 -/
private def xEqV : NestedMeta := .item (.nameValue pX (.lit (strLit "v" ⟨4, 7⟩)) "x = \"v\"" ⟨0, 7⟩)
/-- the same with the value inside two invisible groups -/
private def xEqGroupedV : NestedMeta :=
  .item (.nameValue pX (.group (.group (.lit (strLit "v" ⟨4, 7⟩)) ⟨4, 7⟩) ⟨4, 7⟩) "x = \"v\"" ⟨0, 7⟩)
private def yEqW : NestedMeta := .item (.nameValue pX (.lit (strLit "w" ⟨14, 17⟩)) "y = \"w\"" ⟨10, 17⟩)

/-- a probe whose string hook refuses without giving a span -/
private def strProbe : Hooks Unit := { fromString? := some (fun _ => .err (Err.custom "string hook says no")) }
/-- a probe whose expression hook refuses without giving a span -/
private def exprProbe : Hooks Unit := { fromExpr? := some (fun _ => .err (Err.custom "expr hook says no")) }
private def noHooks : Hooks Unit := {}

/-- non-vacuity of `route_eq` (both hypotheses hold for every probe of the 2⁷ family) -/
example : strProbe.fromMeta? = none ∧ strProbe.fromNestedMeta? = none := ⟨rfl, rfl⟩
example : strProbe.fromNestedMeta xEqV = routed strProbe xEqV := route_eq strProbe rfl rfl xEqV

/-- one hook, by form: string value ↦ string hook, groups or not; with the expression hook
    overridden ↦ expression hook; nothing overridden ↦ none -/
example : hookOf strProbe xEqV = some .string := by decide
example : hookOf strProbe xEqGroupedV = some .string := by decide
example : hookOf exprProbe xEqGroupedV = some .expr := by decide
example : hookOf noHooks xEqV = none := by decide
example : hookOf strProbe (.lit (strLit "v" ⟨0, 3⟩)) = some .string := by decide
/-- non-vacuity of `hookOf_form_alone`: different items, different implementers -/
private def echoProbe : Hooks String := { fromString? := some (fun v => .ok v) }
example : hookOf strProbe xEqV = hookOf echoProbe yEqW := by
  refine hookOf_form_alone strProbe echoProbe xEqV yEqW ?_ rfl rfl
  funext id; cases id <;> rfl
/-- non-vacuity of `inner_of_hook` / `inner_of_no_hook` / `all_defaults_reject` -/
example : inner strProbe xEqV = .err (Err.custom "string hook says no") := rfl
example : inner noHooks xEqV = .err (.leaf (.unexpectedType "string") [] none) :=
  all_defaults_reject noHooks (fun id => by cases id <;> rfl) xEqV

/-- non-vacuity of `route_text_partial`: the side condition holds (first disjunct) for the
    expression hook, and (second disjunct) for a hook that returns a spanned error -/
example : exprProbe.fromNestedMeta xEqV = routedText exprProbe xEqV :=
  route_text_partial exprProbe rfl rfl xEqV (.inl rfl)
private def spannedProbe : Hooks Unit := { fromString? := some (fun _ => .err (.leaf (.custom "no") [] (some ⟨90, 91⟩))) }
example : spannedProbe.fromNestedMeta xEqV = routedText spannedProbe xEqV :=
  route_text_partial spannedProbe rfl rfl xEqV (.inr (by
    rintro ⟨e, he, hs⟩
    have : inner spannedProbe xEqV = .err (.leaf (.custom "no") [] (some ⟨90, 91⟩)) := rfl
    rw [this] at he
    cases he
    simp [Err.span] at hs))

/-- **DISCREPANCY 2 (wording of the span clause; the model agrees with the library).**  For
    `x = "v"` and a string hook returning a span-less error, the error comes back with the span
    of the *literal* (4..7), not "the item's span" (0..7). -/
theorem value_literal_error_gets_literal_span :
    strProbe.fromNestedMeta xEqV = .err (.leaf (.custom "string hook says no") [] (some ⟨4, 7⟩)) ∧
    routedText strProbe xEqV = .err (.leaf (.custom "string hook says no") [] (some ⟨0, 7⟩)) ∧
    strProbe.fromNestedMeta xEqV ≠ routedText strProbe xEqV := by
  have h1 : strProbe.fromNestedMeta xEqV = .err (.leaf (.custom "string hook says no") [] (some ⟨4, 7⟩)) := rfl
  have h2 : routedText strProbe xEqV = .err (.leaf (.custom "string hook says no") [] (some ⟨0, 7⟩)) := rfl
  refine ⟨h1, h2, ?_⟩
  rw [h1, h2]
  simp
/-- the same for a default: `x = "v"` into an implementer overriding nothing -/
example : noHooks.fromNestedMeta xEqV = .err (.leaf (.unexpectedType "string") [] (some ⟨4, 7⟩)) := rfl

end ExamplesC

end C15
