import Darling.FromMeta.Universe
import Darling.Types
/-
  Mirror of `syn::DeriveInput` / `Field` / `Variant` / `TypeParam` as darling reads them —
  used both for *receiver declarations* (the `#[derive(FromMeta)] struct …` the macro author
  writes, with `#[darling(..)]` options) and for *input elements* (the end user's item that a
  derived element-level receiver parses).  Data only.
-/

/-- one attribute `#[path …]` -/
structure Attr where
  path : Path
  /-- `attr.meta`; for a list its items are `NestedMeta::parse_meta_list(tokens)` -/
  body : Meta
  toks : String               -- printed, for token-for-token forwarding
  span : Span
  deriving Inhabited

inductive Style where
  | named | tuple | unit
  deriving Repr, DecidableEq, Inhabited

structure FieldD where
  ident : Option String
  ty : Ty                      -- the field type inside the closed universe (for execution)
  tyToks : String
  vis : String                 -- printed visibility
  attrs : List Attr
  identSpan : Option Span := none
  span : Span := default
  toks : String := ""          -- the whole field, printed
  deriving Inhabited

structure VariantD where
  ident : String
  style : Style
  fields : List FieldD
  attrs : List Attr
  discriminant : Option String   -- printed discriminant expression
  span : Span := default
  toks : String := ""            -- the whole variant, printed
  deriving Inhabited

inductive BodyD where
  | struct (style : Style) (fields : List FieldD)
  | enum (variants : List VariantD)
  | union
  deriving Inhabited

/-- `syn::TypeParam` as an input element -/
structure TypeParamD where
  ident : String
  attrs : List Attr
  bounds : List String          -- printed bounds
  default : Option String       -- printed default type
  toks : String := ""           -- the whole parameter, printed
  deriving Inhabited

/-- `syn::GenericParam` -/
inductive GParamD where
  | type (t : TypeParamD)
  | lifetime (toks : String)
  | const (toks : String)
  deriving Inhabited

structure GenericsD where
  typeParams : List String := []
  toks : String := ""           -- printed `<…>`
  whereToks : String := ""      -- printed where-clause
  hasWhere : Bool := false      -- a where-clause is present (it prints as nothing when it has no predicates)
  params : List GParamD := []   -- every parameter, in source order
  deriving Inhabited

structure DeclD where
  ident : String
  vis : String := ""
  generics : GenericsD := {}
  attrs : List Attr
  body : BodyD
  deriving Inhabited

namespace Style
def shape (s : Style) (n : Nat) : Shape :=
  match s with
  | .named => .named
  | .unit => .unit
  | .tuple => if n == 1 then .newtype else .tuple
end Style

namespace BodyD
def shape : BodyD → BodyShape
  | .struct s fs => .struct (s.shape fs.length)
  | .enum vs => .enum (vs.map (fun v => v.style.shape v.fields.length))
  | .union => .union
end BodyD
