import Darling.Error
/-
  C04 — declarative reading of an error tree.  No reference to `into_vec`, `len`, `display`.
-/
namespace Spec.C04

/-- what the property calls a leaf error: its kind, its full outer-to-inner path, its own span -/
structure LeafDescr where
  kind : Kind
  path : List String
  span : Option Span
  deriving Repr, BEq, DecidableEq

mutual
/-- the leaves of a tree, left to right, each with all its ancestors' locations (outermost
    first) followed by its own -/
def leavesUnder (anc : List String) : Err → List LeafDescr
  | .leaf k ls s => [⟨k, anc ++ ls, s⟩]
  | .multi cs ls _ => leavesListUnder (anc ++ ls) cs
def leavesListUnder (anc : List String) : List Err → List LeafDescr
  | [] => []
  | c :: cs => leavesUnder anc c ++ leavesListUnder anc cs
end

def leaves (e : Err) : List LeafDescr := leavesUnder [] e

/-- a tree that the public constructors can build: no bundle with fewer than two children -/
inductive WF : Err → Prop
  | leaf (k ls s) : WF (.leaf k ls s)
  | multi (cs ls s) : 2 ≤ cs.length → (∀ c ∈ cs, WF c) → WF (.multi cs ls s)

/-- rendering the property prescribes for one leaf -/
def render (k : Kind) (path : List String) : String :=
  k.msg ++ (if path.isEmpty then "" else " at " ++ "/".intercalate path)

end Spec.C04
