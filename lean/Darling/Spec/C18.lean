import Darling.Types
/-
  C18 — the documented table of shape words (no reference to the code's booleans).
-/
namespace Spec.C18

/-- the eleven shape words -/
inductive Word where
  | any
  | structAny | structNamed | structTuple | structNewtype | structUnit
  | enumAny | enumNamed | enumTuple | enumNewtype | enumUnit
  deriving Repr, DecidableEq, Inhabited

def Word.text : Word → String
  | .any => "any"
  | .structAny => "struct_any" | .structNamed => "struct_named" | .structTuple => "struct_tuple"
  | .structNewtype => "struct_newtype" | .structUnit => "struct_unit"
  | .enumAny => "enum_any" | .enumNamed => "enum_named" | .enumTuple => "enum_tuple"
  | .enumNewtype => "enum_newtype" | .enumUnit => "enum_unit"

def Word.all : List Word :=
  [.any, .structAny, .structNamed, .structTuple, .structNewtype, .structUnit,
   .enumAny, .enumNamed, .enumTuple, .enumNewtype, .enumUnit]

/-- does a struct word admit a struct of this shape?  (a tuple word also admits newtypes) -/
def Word.admitsStruct : Word → Shape → Bool
  | .structAny, _ => true
  | .structNamed, .named => true
  | .structTuple, .tuple => true
  | .structTuple, .newtype => true
  | .structNewtype, .newtype => true
  | .structUnit, .unit => true
  | _, _ => false

def Word.admitsVariant : Word → Shape → Bool
  | .enumAny, _ => true
  | .enumNamed, .named => true
  | .enumTuple, .tuple => true
  | .enumTuple, .newtype => true
  | .enumNewtype, .newtype => true
  | .enumUnit, .unit => true
  | _, _ => false

def Word.isEnumWord : Word → Bool
  | .enumAny | .enumNamed | .enumTuple | .enumNewtype | .enumUnit => true
  | _ => false

def Word.isStructWord : Word → Bool
  | .structAny | .structNamed | .structTuple | .structNewtype | .structUnit => true
  | _ => false

def conforms (ws : List Word) (v : Shape) : Bool := ws.any (·.admitsVariant v)

/-- **the table**: `any` accepts everything; struct / enum words are additive; a struct needs a
    struct word that admits it; an enum needs at least one enum word and every variant must
    conform; a union satisfies no struct or enum word -/
def accepts (ws : List Word) : BodyShape → Bool
  | b => ws.contains .any ||
    (match b with
     | .struct s => ws.any (·.admitsStruct s)
     | .enum vs => ws.any (·.isEnumWord) && vs.all (conforms ws)
     | .union => false)

/-- the variants that must each produce one error -/
def nonConforming (ws : List Word) (vs : List Shape) : List Shape := vs.filter (fun v => !conforms ws v)

end Spec.C18
