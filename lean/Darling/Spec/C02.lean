import Darling.DeriveTypes
/-
  C01 / C02 — what a derived struct receiver must compute and report, stated *positionally* over
  the item list (no loop state, no `seen` flags, no accumulator).
-/
namespace Spec.C02
open Derive
variable {ν : Type}

/-- does this item address field `f`?  (its name selects `f`'s match arm) -/
def selects (r : SStruct ν) (f : SField ν) (it : NestedMeta) : Bool :=
  match it with
  | .item m => (match r.arm m.path'.toStr with
      | some g => g.ident == f.ident
      | none => false)
  | .lit _ => false

/-- an item nobody claims (handed to the flatten field, ignored, or an unknown-name mistake) -/
def unclaimed (r : SStruct ν) (it : NestedMeta) : Bool :=
  match it with
  | .item m => (r.arm m.path'.toStr).isNone
  | .lit _ => false

/-- the values a `multiple` field collects: every accepted occurrence, in source order -/
def successes (r : SStruct ν) (f : SField ν) (items : List NestedMeta) : List ν :=
  items.filterMap (fun it => match it with
    | .item m => if selects r f it then (match f.conv m with | .ok v => some v | _ => none) else none
    | .lit _ => none)

/-- how many of `items` address field `f` (accepted or not) -/
def occurrences (r : SStruct ν) (f : SField ν) (items : List NestedMeta) : Nat :=
  (items.filter (selects r f)).length

/-- the mistakes contributed by one item, given the items before it -/
def itemMistakes (r : SStruct ν) (earlier : List NestedMeta) (it : NestedMeta) : List Err :=
  match it with
  | .lit l => [(Err.unsupportedFormat "literal").withSpan l.span]
  | .item m =>
      let name := m.path'.toStr
      match r.arm name with
      | some f =>
          if f.multiple then
            (match f.conv m with
             | .err e => [(e.withSpan m.span).at (f.name ++ "[" ++ toString (occurrences r f earlier) ++ "]")]
             | _ => [])
          else if earlier.any (selects r f) then [(Err.new (.duplicateField f.name)).withSpan m.span]
          else (match f.conv m with
             | .err e => [(e.withSpan m.span).at f.name]
             | _ => [])
      | none =>
          if r.hasFlatten || r.allowUnknown then [] else [(r.unknownErr name).withSpan m.span]

/-- all item-level mistakes, in item order -/
def loopMistakes (r : SStruct ν) : List NestedMeta → List NestedMeta → List Err
  | _, [] => []
  | earlier, it :: rest => itemMistakes r earlier it ++ loopMistakes r (earlier ++ [it]) rest

/-- what the flatten field receives: the unclaimed items, in order -/
def buffered (r : SStruct ν) (items : List NestedMeta) : List NestedMeta :=
  if r.hasFlatten then items.filter (unclaimed r) else []

/-- the flatten field's conversion of the buffered items (names of the enclosing receiver are
    offered for unknown names it received directly) -/
def flattenResult (r : SStruct ν) (ff : SField ν) (items : List NestedMeta) : Outcome ν :=
  let res := ff.fromList (buffered r items)
  if r.names.isEmpty then res else
    res.mapErr (Suggest.addSiblingAlts r.thr (fun n => r.names.map (fun a => (a, r.score n a))))

def flattenMistakes (r : SStruct ν) (items : List NestedMeta) : List Err :=
  match r.fields.find? (·.flatten) with
  | none => []
  | some ff => (match flattenResult r ff items with
      | .err e => [e]
      | _ => [])

/-- the first value supplied for a single-valued field -/
def firstValue (r : SStruct ν) (f : SField ν) (items : List NestedMeta) : Option ν :=
  match items.find? (selects r f) with
  | some (.item m) => (match f.conv m with | .ok v => some v | _ => none)
  | _ => none

def isFirstFlatten (r : SStruct ν) (f : SField ν) : Bool :=
  match r.fields.find? (·.flatten) with
  | some ff => ff.ident == f.ident
  | none => false

/-- required-but-absent fields, in declaration order -/
def missing (r : SStruct ν) (items : List NestedMeta) : List Err :=
  r.fields.filterMap (fun f =>
    if !f.multiple && f.dflt.isNone && !(items.any (selects r f)) && !(isFirstFlatten r f) && f.fromNone.isNone
    then some (Err.new (.missingField f.name)) else none)

/-- **every mistake of the input**, in the order they are reported -/
def mistakes (r : SStruct ν) (items : List NestedMeta) : List Err :=
  loopMistakes r [] items ++ flattenMistakes r items ++ missing r items

end Spec.C02

/-! ## C01: the value of a mistake-free input -/
namespace Spec.C01
open Derive Spec.C02
variable {ν : Type}

/-- what the first flatten field holds: its type's conversion of the unclaimed items -/
def flattenValue (r : SStruct ν) (items : List NestedMeta) : Option ν :=
  match r.fields.find? (·.flatten) with
  | some ff => (match flattenResult r ff items with | .ok v => some v | _ => none)
  | none => none

/-- a field's default: its own declared default, else the same-named field of the
    container-level default -/
def defaultOf (r : SStruct ν) (f : SField ν) (d : DefaultSrc ν) : Outcome ν :=
  match d with
  | .value v => .ok v
  | .inherit => match r.containerDefault with
      | some cd => .ok (cd f.ident)
      | none => .panic "`__default` is not declared"

/-- **the declared field mapping**: what field `f` must hold after a mistake-free input -/
def fieldValue (r : SStruct ν) (items : List NestedMeta) (f : SField ν) : Outcome ν :=
  if f.multiple then
    let vs := successes r f items                       -- every occurrence, in source order
    match f.dflt with
    | some d => if !vs.isEmpty then .ok (r.mkList vs) else defaultOf r f d
    | none => .ok (r.mkList vs)
  else
    let supplied : Option ν := if isFirstFlatten r f then flattenValue r items else firstValue r f items
    match supplied with
    | some v => .ok v                                    -- the value supplied under its effective name
    | none => match f.dflt with
        | some d => defaultOf r f d                      -- own default / container default's field
        | none => match f.fromNone with
            | some v => .ok v                            -- the type's value-for-absent
            | none => .panic "Uninitialized fields without defaults were already checked"

def collect : List (String × Outcome ν) → Outcome (List (String × ν))
  | [] => .ok []
  | (k, o) :: rest => match o with
      | .ok v => (collect rest).map ((k, v) :: ·)
      | .err e => .err e
      | .panic m => .panic m

def expected (r : SStruct ν) (items : List NestedMeta) : Outcome ν :=
  match collect (r.fields.map (fun f => (f.ident, fieldValue r items f))) with
  | .ok kvs => r.post (r.build kvs)
  | .err e => .err e
  | .panic m => .panic m

end Spec.C01
