import Darling.Error
/-
  C11 — what a decimal spelling denotes, positionally (no folds, no accumulators).
-/
namespace Spec.C11

def isDigit (c : Char) : Bool := '0' ≤ c && c ≤ '9'
def digitOf (c : Char) : Nat := c.toNat - '0'.toNat

/-- positional value of a digit string, most significant first: Σ dᵢ · 10^(n-1-i) -/
def pos : List Char → Nat
  | [] => 0
  | c :: cs => digitOf c * 10 ^ cs.length + pos cs

/-- a decimal spelling accepted for a target: optional `+`, or `-` when the target is signed,
    followed by at least one ASCII digit and nothing else -/
structure Spelling where
  neg : Bool
  digits : List Char

def Spelling.wellFormed (signed : Bool) (s : Spelling) : Bool :=
  !s.digits.isEmpty && s.digits.all isDigit && (!s.neg || signed)

def Spelling.value (s : Spelling) : Int := if s.neg then -(pos s.digits : Int) else pos s.digits

/-- the ways a string can spell `s` -/
def Spelling.spells (s : Spelling) (str : List Char) : Prop :=
  (s.neg = true ∧ str = '-' :: s.digits) ∨ (s.neg = false ∧ (str = s.digits ∨ str = '+' :: s.digits))

end Spec.C11
