import Darling.Syntax
/-
  C15(b) — the *form* of an item, read off the syntax alone (invisible groups transparent).
-/
namespace Spec.C15

/-- strip invisible groups -/
def ungroup : Expr → Expr
  | .group g _ => ungroup g
  | e => e

/-- the forms the statement lists -/
inductive Form where
  | word
  | list (items : List NestedMeta)
  | unparsableList (msg : String) (sp : Span)
  | boolLit (b : Bool) (l : Lit)
  | strLit (s : String) (l : Lit)
  | charLit (c : Char) (l : Lit)
  | otherLit (l : Lit)                 -- "generic literal": int, float, byte string, …
  | nonLit (e : Expr)                  -- non-literal expression (groups stripped)

def litForm (l : Lit) : Form :=
  match l.v with
  | .bool b => .boolLit b l
  | .str s => .strLit s l
  | .char c => .charLit c l
  | _ => .otherLit l

def exprForm (e : Expr) : Form :=
  match ungroup e with
  | .lit l => litForm l
  | e' => .nonLit e'

def formOf : Meta → Form
  | .path _ => .word
  | .list _ items none _ _ _ => .list items
  | .list _ _ (some (msg, sp)) _ _ _ => .unparsableList msg sp
  | .nameValue _ e _ _ => exprForm e

end Spec.C15
