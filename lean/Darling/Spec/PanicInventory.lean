import Darling.Generated.Facts
/-
  T3 — inventory of the explicit panic sites of darling's non-test code
  (`panic!`, `unreachable!`, `unimplemented!`, `todo!`, `.unwrap()`, `.expect(..)`, `.unwrap_err()`,
  `assert*!`), per (file, enclosing fn, kind, count).

  `Generated.panicSites` is regenerated from /repo on every run; `inventory_current` (Props/C06,
  Props/C07) demands that it equals the classified list below.  A new site, a vanished site or a
  moved site breaks that obligation: the property is then no longer shown to hold until the site
  is classified (and, when it lies on a parsing path, modelled and discharged).
-/
namespace Spec.PanicInventory

inductive Class where
  /-- the model has the corresponding `.panic` outcome and a theorem proves it unreachable -/
  | deadByTheorem (thm : String)
  /-- derive-time code guarded by an earlier check of the same derive; exercised by the C06 / C10
      streams over every data shape (a panic there is caught by `catch_unwind` and judged) -/
  | deriveGuarded (guard : String)
  /-- a documented panic of the public API that no parsing entry point reaches -/
  | documentedApi (doc : String)
  /-- only compiled with the nightly `diagnostics` feature, outside the model and the harness build -/
  | diagnosticsFeature
  /-- `_ => panic!` arm of a match over a non-exhaustive syn enum; unreachable for every variant of
      the pinned syn (the C19 / C06 streams produce every variant the grammar has) -/
  | nonExhaustiveCatchAll
  /-- infallible by the line(s) just before it -/
  | localInvariant (why : String)
  deriving Repr

structure Site where
  file : String
  fn_ : String
  kind : String
  count : Nat
  cls : Class

def Site.key (s : Site) : String × String × String × Nat := (s.file, s.fn_, s.kind, s.count)

def sites : List Site := [
  ⟨"core/src/ast/data.rs", "empty_from", "panic", 1, .documentedApi "Data::empty_from on a union; not called by generated code (Data::try_from returns an error instead: C16.data_union)"⟩,
  ⟨"core/src/codegen/attrs_field.rs", "to_tokens", "expect", 2, .deadByTheorem "emitted `attrs.expect(\"Errors were already checked\")`: C07.outer_returns (AttrsGuard); derive-time `filter.expect(..)` is guarded by will_forward_any in the same function"⟩,
  ⟨"core/src/codegen/field.rs", "to_tokens", "expect", 1, .deadByTheorem "emitted initialiser `expect(\"Uninitialized fields without defaults were already checked\")`: C02.fromList_never_panics, C07.outer_returns (Good / Checked)"⟩,
  ⟨"core/src/codegen/from_meta_impl.rs", "from_meta", "panic", 1, .deriveGuarded "FromMetaOptions::validate_body rejects tuple structs with len != 1 before code generation (C06, C10 streams: struct R(u8,u8); struct R();)"⟩,
  ⟨"core/src/codegen/trait_impl.rs", "make_field_ctx", "panic", 1, .deriveGuarded "only called from the struct arms of the impl generators"⟩,
  ⟨"core/src/codegen/variant.rs", "to_tokens", "expect", 1, .localInvariant "inside `if self.data.is_newtype()`"⟩,
  ⟨"core/src/codegen/variant.rs", "to_tokens", "panic", 1, .deriveGuarded "InputVariant::is_unsupported_tuple rejects tuple variants with len != 1 in validate_body (C06, C10 streams: enum E { A(u8,u8) }, enum R { B() })"⟩,
  ⟨"core/src/codegen/variant_data.rs", "declarations", "panic", 1, .deriveGuarded "FieldsGen is only built for named / unit / newtype bodies after validate_body"⟩,
  ⟨"core/src/codegen/variant_data.rs", "require_fields", "panic", 1, .deriveGuarded "as above"⟩,
  ⟨"core/src/error/child.rs", "append_to", "unwrap", 4, .diagnosticsFeature⟩,
  ⟨"core/src/error/kind.rs", "description", "unreachable", 1, .localInvariant "Multiple with 0 children is never constructed: Error::multiple panics on the empty list (C04.reachable_WF)"⟩,
  ⟨"core/src/error/kind.rs", "did_you_mean", "unwrap", 1, .localInvariant "`candidate.is_none() ||` short-circuits before `candidate.as_ref().unwrap()`"⟩,
  ⟨"core/src/error/kind.rs", "fmt", "unreachable", 1, .localInvariant "as `description`"⟩,
  ⟨"core/src/error/kind.rs", "into_diagnostic", "unwrap", 1, .diagnosticsFeature⟩,
  ⟨"core/src/error/mod.rs", "drop", "panic", 2, .documentedApi "the accumulator's drop bomb: C05 (run_segment, finish_with_ok_iff); generated code always finishes its accumulator (C07 correspondence)"⟩,
  ⟨"core/src/error/mod.rs", "emit_with_macro_help_span", "unwrap", 1, .diagnosticsFeature⟩,
  ⟨"core/src/error/mod.rs", "errors", "panic", 1, .documentedApi "accumulator accessed after defuse: unreachable through the safe API (consuming methods take self)"⟩,
  ⟨"core/src/error/mod.rs", "from", "expect", 1, .deadByTheorem "flatten of a reachable error is non-empty: C04.len_eq_leaves, C04.reachable_WF"⟩,
  ⟨"core/src/error/mod.rs", "into_inner", "panic", 1, .documentedApi "as `errors`"⟩,
  ⟨"core/src/error/mod.rs", "multiple", "expect", 1, .localInvariant "arm `1 =>`"⟩,
  ⟨"core/src/error/mod.rs", "multiple", "panic", 1, .documentedApi "Error::multiple(vec![]) is documented to panic; every call site on a parsing path passes a non-empty list (C05.finish_with_ok_iff, model `Err.bundleErr`)"⟩,
  ⟨"core/src/error/mod.rs", "single_to_diagnostic", "unwrap", 1, .diagnosticsFeature⟩,
  ⟨"core/src/options/core.rs", "as_codegen_default", "panic", 1, .deriveGuarded "a container-level `default` is parsed to Trait or Explicit only"⟩,
  ⟨"core/src/options/core.rs", "parse_field", "panic", 2, .deriveGuarded "parse_body calls parse_field for struct bodies with fields only"⟩,
  ⟨"core/src/options/core.rs", "parse_nested", "unwrap", 1, .localInvariant "after `path.is_ident(..)`"⟩,
  ⟨"core/src/options/core.rs", "parse_variant", "panic", 1, .deriveGuarded "parse_body calls parse_variant for enum bodies only"⟩,
  ⟨"core/src/options/input_field.rs", "parse_nested", "unwrap", 1, .localInvariant "after `path.is_ident(..)`"⟩,
  ⟨"core/src/options/mod.rs", "parse_body", "unreachable", 1, .deriveGuarded "unions are rejected by `Core::start` / `OuterFrom::start` before parse_body (C10.union_rejected; C06 streams with unions)"⟩,
  ⟨"core/src/usage/lifetimes.rs", "uses_lifetimes", "panic", 4, .nonExhaustiveCatchAll⟩,
  ⟨"core/src/usage/type_params.rs", "uses_type_params", "panic", 4, .nonExhaustiveCatchAll⟩,
  ⟨"core/src/util/flag.rs", "from_meta", "unwrap_err", 1, .localInvariant "`<()>::from_meta` of a non-path item is an error: C07.unit_np + Scalars.unitHooks has no list / value hook (stream c12 covers Flag x every item form)"⟩,
  ⟨"core/src/util/shape.rs", "fmt", "unreachable", 1, .deadByTheorem "C18.display_ok"⟩
]

end Spec.PanicInventory
