import Darling.Syntax
/-
  C14 — what a keyed collection must report, item by item (positional; no loop state).
  Parameters: `key? : Path → Except Err String` (key conversion), `conv : Meta → Except Err α`
  (the element type's verdict on an item, already located under the item's name).
-/
namespace Spec.C14
variable {α : Type}

def nameOf? : NestedMeta → Option Meta
  | .item m => some m
  | .lit _ => none

/-- is the key of `m` the converted key of some *earlier* named item whose key converts? -/
def repeated (key? : Path → Except Err String) (earlier : List NestedMeta) (k : String) : Bool :=
  earlier.any (fun it => match nameOf? it with
    | some m' => (match key? m'.path' with
        | .ok k' => k' == k
        | .error _ => false)
    | none => false)

/-- the mistakes contributed by the item at the end of `earlier ++ [it]` -/
def itemMistakes (key? : Path → Except Err String) (dupErr : String → Path → Err)
    (conv : Meta → Except Err α) (earlier : List NestedMeta) (it : NestedMeta) : List Err :=
  match it with
  | .lit _ => [Err.unsupportedFormat "expression"]
  | .item m =>
      let valueErr : List Err := match conv m with
        | .error e => [e]
        | .ok _ => []
      match key? m.path' with
      | .error ke => ke :: valueErr
      | .ok k => (if repeated key? earlier k then [dupErr k m.path'] else []) ++ valueErr

/-- all mistakes of a list, in item order -/
def mistakes (key? : Path → Except Err String) (dupErr : String → Path → Err)
    (conv : Meta → Except Err α) : List NestedMeta → List NestedMeta → List Err
  | _, [] => []
  | earlier, it :: rest =>
      itemMistakes key? dupErr conv earlier it ++ mistakes key? dupErr conv (earlier ++ [it]) rest

/-- the entries of a mistake-free list: one per item, in order -/
def entries (key? : Path → Except Err String) (conv : Meta → Except Err α) :
    List NestedMeta → List (String × α)
  | [] => []
  | .item m :: rest =>
      (match key? m.path', conv m with
       | .ok k, .ok v => [(k, v)]
       | _, _ => []) ++ entries key? conv rest
  | .lit _ :: rest => entries key? conv rest

end Spec.C14
