import Darling.Error
/-
  C05 — declarative vocabulary: what a history *recorded*.
  (The operation type lives with the model in `Darling/Accum.lean`; the spec here is generic in
  it: it is given the function that says which errors one operation records.)
-/
namespace Spec.C05

/-- the errors recorded by a list of operations, in recording order -/
def recordedBy {Op : Type} (records : Op → List Err) (ops : List Op) : List Err :=
  ops.flatMap records

/-- "an error bundling exactly `errs` in order": the single error itself, or a bundle whose
    children are `errs` -/
def Bundles (e : Err) (errs : List Err) : Prop :=
  errs ≠ [] ∧ ((errs = [e]) ∨ (2 ≤ errs.length ∧ e = .multi errs [] none))

end Spec.C05
