import Darling.UsageTypes
/-
  C19 — where a name *occurs as a parameter* in a type: as the unqualified leading segment of a
  path, or inside generic arguments, through references, pointers, slices, arrays, tuples,
  function and trait-object types, and inside a qualified-self only for declaration purposes.
  `occ` lists those names; it mentions no query set.
-/
namespace Spec.C19

mutual
def occ (declare : Bool) : SType → List String
  | .path q p => occPath declare p ++ (if declare then occOpt declare q else [])
  | .ref _ e => occ declare e
  | .ptr e => occ declare e
  | .slice e => occ declare e
  | .array e => occ declare e
  | .tuple es => occList declare es
  | .bareFn ins out => occList declare ins ++ occOpt declare out
  | .paren e => occ declare e
  | .group e => occ declare e
  | .traitObject bs => occBounds declare bs
  | .implTrait bs => occBounds declare bs
  | .opaque => []
def occOpt (declare : Bool) : Option SType → List String
  | none => []
  | some t => occ declare t
def occList (declare : Bool) : List SType → List String
  | [] => []
  | t :: ts => occ declare t ++ occList declare ts
def occPath (declare : Bool) : SPath → List String
  | .mk global segs =>
      (match segs with
       | [] => []
       | .mk ident _ :: _ => if global then [] else [ident]) ++ occSegs declare segs
def occSegs (declare : Bool) : List SSeg → List String
  | [] => []
  | .mk _ args :: rest => occArgs declare args ++ occSegs declare rest
def occArgs (declare : Bool) : SArgs → List String
  | .none => []
  | .angle as => occGArgs declare as
  | .paren ins out => occList declare ins ++ occOpt declare out
def occGArgs (declare : Bool) : List SGArg → List String
  | [] => []
  | a :: as => occGArg declare a ++ occGArgs declare as
def occGArg (declare : Bool) : SGArg → List String
  | .ty t => occ declare t
  | .assocTy t => occ declare t
  | .constraint bs => occBounds declare bs
  | .lifetime _ => []
  | .other => []
def occBounds (declare : Bool) : List SBound → List String
  | [] => []
  | b :: bs => occBound declare b ++ occBounds declare bs
def occBound (declare : Bool) : SBound → List String
  | .trait _ p => occPath declare p
  | .lifetime _ => []
end

/-- lifetimes occurring in a type: reference lifetimes, lifetime generic arguments, lifetime
    bounds, and the lifetimes of `for<..>` binders with their bounds -/
def occBinder : List (String × List String) → List String
  | [] => []
  | (l, bs) :: rest => l :: bs ++ occBinder rest

mutual
def ltOcc (declare : Bool) : SType → List String
  | .path q p => ltPath declare p ++ (if declare then ltOpt declare q else [])
  | .ref lt e => (match lt with | some l => [l] | none => []) ++ ltOcc declare e
  | .ptr e => ltOcc declare e
  | .slice e => ltOcc declare e
  | .array e => ltOcc declare e
  | .tuple es => ltList declare es
  | .bareFn ins out => ltList declare ins ++ ltOpt declare out
  | .paren e => ltOcc declare e
  | .group e => ltOcc declare e
  | .traitObject bs => ltBounds declare bs
  | .implTrait bs => ltBounds declare bs
  | .opaque => []
def ltOpt (declare : Bool) : Option SType → List String
  | none => []
  | some t => ltOcc declare t
def ltList (declare : Bool) : List SType → List String
  | [] => []
  | t :: ts => ltOcc declare t ++ ltList declare ts
def ltPath (declare : Bool) : SPath → List String
  | .mk _ segs => ltSegs declare segs
def ltSegs (declare : Bool) : List SSeg → List String
  | [] => []
  | .mk _ args :: rest => ltArgs declare args ++ ltSegs declare rest
def ltArgs (declare : Bool) : SArgs → List String
  | .none => []
  | .angle as => ltGArgs declare as
  | .paren ins out => ltList declare ins ++ ltOpt declare out
def ltGArgs (declare : Bool) : List SGArg → List String
  | [] => []
  | a :: as => ltGArg declare a ++ ltGArgs declare as
def ltGArg (declare : Bool) : SGArg → List String
  | .ty t => ltOcc declare t
  | .assocTy t => ltOcc declare t
  | .constraint bs => ltBounds declare bs
  | .lifetime l => [l]
  | .other => []
def ltBounds (declare : Bool) : List SBound → List String
  | [] => []
  | b :: bs => ltBound declare b ++ ltBounds declare bs
def ltBound (declare : Bool) : SBound → List String
  | .trait binder p => ltPath declare p ++ occBinder binder
  | .lifetime l => [l]
end

end Spec.C19
