import Darling.Error
/-
  C03 — declarative vocabulary for spans of error trees.
-/
namespace Spec.C03

mutual
/-- the span each leaf must show after bundling/flattening/conversion: its own if it has one,
    else the span of its nearest enclosing bundle that has one (`inh`), else none -/
def spansUnder (inh : Option Span) : Err → List (Option Span)
  | .leaf _ _ s => [s.or inh]
  | .multi cs _ s => spansListUnder (s.or inh) cs
def spansListUnder (inh : Option Span) : List Err → List (Option Span)
  | [] => []
  | c :: cs => spansUnder inh c ++ spansListUnder inh cs
end

def leafSpans (e : Err) : List (Option Span) := spansUnder none e

end Spec.C03
