import Darling.Codec
import Darling.Syntax
/-
  The value universe used when the model is *executed* (driver); theorems are stated over an
  arbitrary result type and never depend on `Val`.
-/
open Sexp

inductive Val where
  | unit
  | bool (b : Bool)
  | int (i : Int)
  | str (s : String)
  | char (c : Char)
  | float (bits : Nat)
  | none
  | some (v : Val)
  | ptr (v : Val)
  | okv (v : Val)
  | errv (e : Err)
  | okm (v : Val)
  | errm (toks : String)
  | inherit
  | explicit (v : Val)
  | spanned (v : Val) (sp : Option Span)
  | withOrig (v : Val) (toks : String)
  | flag (sp : Option Span)
  | toks (t : String)
  | list (vs : List Val)
  | map (kvs : List (String × Val))
  | record (name : String) (fields : List (String × Val))
  | variant (en : String) (v : String) (payload : Val)
  deriving Repr, Inhabited, BEq

namespace Val

/-- insertion sort of map entries by key: maps are compared as sets of entries -/
def insertKV (kv : String × Sexp) : List (String × Sexp) → List (String × Sexp)
  | [] => [kv]
  | x :: xs => if kv.1 < x.1 then kv :: x :: xs else x :: insertKV kv xs

partial def toSexp : Val → Sexp
  | unit => atom "unit"
  | bool b => tagged "bool" [Sexp.bool b]
  | int i => tagged "int" [Sexp.int i]
  | str s => tagged "str" [.str s]
  | char c => tagged "char" [nat c.toNat]
  | float b => tagged "float" [nat b]
  | none => atom "none"
  | some v => tagged "some" [toSexp v]
  | ptr v => tagged "ptr" [toSexp v]
  | okv v => tagged "okv" [toSexp v]
  | errv e => tagged "errv" [Codec.obsErr e]
  | okm v => tagged "okm" [toSexp v]
  | errm t => tagged "errm" [.str t]
  | inherit => atom "inherit"
  | explicit v => tagged "explicit" [toSexp v]
  | spanned v sp => tagged "spanned" [toSexp v, Codec.spanToSexp sp]
  | withOrig v t => tagged "withorig" [toSexp v, .str t]
  | flag sp => tagged "flag" [Codec.spanToSexp sp]
  | toks t => tagged "toks" [.str t]
  | list vs => tagged "list" (vs.map toSexp)
  | map kvs =>
      let rows := (kvs.map (fun kv => (kv.1, toSexp kv.2))).foldr insertKV []
      tagged "map" (rows.map (fun kv => Sexp.list [.str kv.1, kv.2]))
  | record n fs => tagged "rec" (.str n :: fs.map (fun kv => Sexp.list [.str kv.1, toSexp kv.2]))
  | variant en v p => tagged "variant" [.str en, .str v, toSexp p]

/-- inverse of `toSexp` for the constructors that occur in oracle rows (values of user functions
    evaluated by the harness) -/
partial def ofSexp? : Sexp → Option Val
  | .atom "unit" => Option.some Val.unit
  | .list [.atom "bool", b] => do pure (bool (← b.asBool?))
  | .list [.atom "int", i] => do pure (int (← i.asInt?))
  | .list [.atom "str", .str s] => Option.some (Val.str s)
  | .list [.atom "char", n] => do pure (char (Char.ofNat (← n.asNat?)))
  | .list [.atom "float", n] => do pure (float (← n.asNat?))
  | .atom "none" => Option.some Val.none
  | .list [.atom "some", v] => do pure (Val.some (← ofSexp? v))
  | .list [.atom "ptr", v] => do pure (ptr (← ofSexp? v))
  | .atom "inherit" => Option.some Val.inherit
  | .list [.atom "explicit", v] => do pure (explicit (← ofSexp? v))
  | .list [.atom "spanned", v, sp] => do pure (spanned (← ofSexp? v) (← Codec.spanOf? sp))
  | .list [.atom "flag", sp] => do pure (flag (← Codec.spanOf? sp))
  | .list [.atom "toks", .str t] => Option.some (Val.toks t)
  | .list (.atom "list" :: vs) => do pure (list (← vs.mapM ofSexp?))
  | .list (.atom "map" :: rows) => do
      let kvs ← rows.mapM (fun r => match r with
        | .list [.str k, v] => do pure (k, ← ofSexp? v)
        | _ => Option.none)
      pure (map kvs)
  | .list (.atom "rec" :: .str n :: rows) => do
      let kvs ← rows.mapM (fun r => match r with
        | .list [.str k, v] => do pure (k, ← ofSexp? v)
        | _ => Option.none)
      pure (record n kvs)
  | .list [.atom "variant", .str en, .str v, p] => do pure (variant en v (← ofSexp? p))
  | _ => Option.none

end Val

/-- canonical answer of a conversion -/
def Outcome.toAnswer (o : Outcome Val) : String :=
  match o with
  | .ok v => toString (tagged "ok" [v.toSexp])
  | .err e => toString (tagged "err" [Codec.obsErr e])
  | .panic _ => "(panic)"
