import Darling.Codec
import Darling.Syntax
/- wire decoding of the syntax mirror -/
open Sexp Codec

namespace SyntaxCodec

def mkSpan? (a b : Sexp) : Option Span := do pure ⟨← a.asNat?, ← b.asNat?⟩

def pathOf? : Sexp → Option Path
  | .list [.atom "path", g, segs, plain, .str toks, lo, hi] => do
      pure { global := ← g.asBool?, segs := ← strs? segs, plain := ← plain.asBool?, toks, span := ← mkSpan? lo hi }
  | .list [.atom "path", g, segs, plain, .str toks, lo, hi, flo, fhi] => do
      pure { global := ← g.asBool?, segs := ← strs? segs, plain := ← plain.asBool?, toks, span := ← mkSpan? lo hi,
             first := ← mkSpan? flo fhi }
  | _ => none

def litVOf? : Sexp → Option LitV
  | .list [.atom "str", .str s] => some (.str s)
  | .list [.atom "bool", b] => do pure (.bool (← b.asBool?))
  | .list [.atom "char", n] => do pure (.char (Char.ofNat (← n.asNat?)))
  | .list [.atom "int", .str d, .str s] => some (.int d s)
  | .list [.atom "float", .str d, .str s] => some (.float d s)
  | .atom "bytestr" => some .byteStr
  | .atom "byte" => some .byte
  | .atom "cstr" => some .cstr
  | .atom "verbatim" => some .verbatim
  | _ => none

def litOf? : Sexp → Option Lit
  | .list [.atom "lit", v, .str toks, lo, hi] => do
      pure { v := ← litVOf? v, toks, span := ← mkSpan? lo hi }
  | _ => none

partial def exprOf? : Sexp → Option Expr
  | .list [.atom "elit", l] => do pure (.lit (← litOf? l))
  | .list [.atom "epath", p, lo, hi] => do pure (.path (← pathOf? p) (← mkSpan? lo hi))
  | .list [.atom "eqpath", p, .str toks, lo, hi] => do pure (.qpath (← pathOf? p) toks (← mkSpan? lo hi))
  | .list [.atom "egroup", e, lo, hi] => do pure (.group (← exprOf? e) (← mkSpan? lo hi))
  | .list [.atom "earray", .list es, .str toks, lo, hi] => do
      pure (.array (← es.mapM exprOf?) toks (← mkSpan? lo hi))
  | .list [.atom "eother", .str k, .str toks, lo, hi] => do pure (.other k toks (← mkSpan? lo hi))
  | _ => none

mutual
partial def metaOf? : Sexp → Option Meta
  | .list [.atom "mpath", p] => do pure (.path (← pathOf? p))
  | .list [.atom "mlist", p, .list items, bad, tokSpan, .str toks, lo, hi] => do
      let bad ← (match bad with
        | .atom "none" => some none
        | .list [.atom "bad", .str msg, a, b] => do pure (some (msg, ← mkSpan? a b))
        | _ => none)
      pure (.list (← pathOf? p) (← items.mapM nestedOf?) bad (← spanOf? tokSpan) toks (← mkSpan? lo hi))
  | .list [.atom "mnv", p, e, .str toks, lo, hi] => do
      pure (.nameValue (← pathOf? p) (← exprOf? e) toks (← mkSpan? lo hi))
  | _ => none
partial def nestedOf? : Sexp → Option NestedMeta
  | .list [.atom "nm", m] => do pure (.item (← metaOf? m))
  | .list [.atom "nl", l] => do pure (.lit (← litOf? l))
  | _ => none
end

end SyntaxCodec
