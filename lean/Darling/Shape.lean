import Darling.Syntax
import Darling.Types
/-
  Shape validation: core/src/util/shape.rs (`Shape`, `ShapeSet`) and core/src/options/shape.rs
  (`DataShape`, `DeriveInputShapeSet`, the emitted `__validate_body`).
-/

def Shape.description : Shape → String
  | .named => "named fields"
  | .tuple => "unnamed fields"
  | .unit => "no fields"
  | .newtype => "one unnamed field"

structure ShapeSet where
  newtype : Bool := false
  named : Bool := false
  tuple : Bool := false
  unit : Bool := false
  deriving Repr, DecidableEq, Inhabited

namespace ShapeSet

def insert (s : ShapeSet) : Shape → ShapeSet
  | .named => { s with named := true }
  | .tuple => { s with tuple := true }
  | .unit => { s with unit := true }
  | .newtype => { s with newtype := true }

/-- `ShapeSet::new` / `FromIterator` -/
def ofList (shapes : List Shape) : ShapeSet := shapes.foldl insert {}

def isEmpty (s : ShapeSet) : Bool := !s.named && !s.newtype && !s.tuple && !s.unit

def containsShape (s : ShapeSet) : Shape → Bool
  | .named => s.named
  | .tuple => s.tuple
  | .unit => s.unit
  | .newtype => s.newtype || s.tuple

def toVec (s : ShapeSet) : List Shape :=
  (if s.named then [Shape.named] else []) ++
  (if s.tuple || s.newtype then [if s.tuple then Shape.tuple else Shape.newtype] else []) ++
  (if s.unit then [Shape.unit] else [])

/-- `impl Display for ShapeSet`; the `_ => unreachable!()` arm is explicit -/
def display (s : ShapeSet) : Outcome String :=
  match s.toVec with
  | [] => .ok "nothing"
  | [a] => .ok a.description
  | [a, b] => .ok (a.description ++ " or " ++ b.description)
  | [a, b, c] => .ok (a.description ++ ", " ++ b.description ++ ", or " ++ c.description)
  | _ => .panic "internal error: entered unreachable code"

/-- `ShapeSet::check` -/
def check (s : ShapeSet) (shape : Shape) : Outcome Unit :=
  if s.containsShape shape then .ok ()
  else match s.display with
    | .ok d => .err (Err.new (.unsupportedShape shape.description (some d)))
    | .err e => .err e
    | .panic m => .panic m

end ShapeSet

structure DataShape where
  pre : String := ""
  newtype : Bool := false
  named : Bool := false
  tuple : Bool := false
  unit : Bool := false
  any : Bool := false
  deriving Repr, DecidableEq, Inhabited

namespace DataShape

/-- `word.strip_prefix(self.prefix).unwrap_or(word)` -/
def stripPrefix (pre word : String) : String :=
  if pre.toList.isPrefixOf word.toList then String.ofList (word.toList.drop pre.length) else word

/-- `DataShape::set_word` -/
def setWord (d : DataShape) (word : String) : Except Err DataShape :=
  match stripPrefix d.pre word with
  | "newtype" => .ok { d with newtype := true }
  | "named" => .ok { d with named := true }
  | "tuple" => .ok { d with tuple := true }
  | "unit" => .ok { d with unit := true }
  | "any" => .ok { d with any := true }
  | _ => .error (Err.unknownValue word)

/-- `impl ToTokens for DataShape`: the `ShapeSet::new(vec![..])` it prints -/
def toShapeSet (d : DataShape) : ShapeSet :=
  ShapeSet.ofList (
    (if d.any || d.named then [Shape.named] else []) ++
    (if d.any || d.tuple then [Shape.tuple] else []) ++
    (if d.any || d.newtype then [Shape.newtype] else []) ++
    (if d.any || d.unit then [Shape.unit] else []))

/-- `impl FromMeta for DataShape`: `from_list` (accumulating) -/
def fromListLoop (d : DataShape) (errs : List Err) : List NestedMeta → DataShape × List Err
  | [] => (d, errs)
  | .item (.path p) :: rest =>
      (match p.getIdent with
       | some w => (match d.setWord w with
           | .ok d' => fromListLoop d' errs rest
           | .error e => fromListLoop d (errs ++ [e]) rest)
       | none => fromListLoop d (errs ++ [(Err.unknownValue p.toStr).withSpan p.span]) rest)
  | n :: rest => fromListLoop d (errs ++ [(Err.unsupportedFormat "non-word").withSpan n.span]) rest

def fromList (items : List NestedMeta) : Outcome DataShape :=
  match fromListLoop {} [] items with
  | (d, []) => .ok d
  | (_, errs) => Err.bundleErr errs

end DataShape

structure DISS where
  enumValues : DataShape := { pre := "enum_" }
  structValues : DataShape := { pre := "struct_" }
  any : Bool := false
  deriving Repr, DecidableEq, Inhabited

namespace DISS

/-- the effect of one shape word -/
def applyWord (d : DISS) (word : String) : Except Err DISS :=
  if word == "any" then .ok { d with any := true }
  else if "enum_".toList.isPrefixOf word.toList then
    (match d.enumValues.setWord word with
     | .ok ev => .ok { d with enumValues := ev }
     | .error e => .error e)
  else if "struct_".toList.isPrefixOf word.toList then
    (match d.structValues.setWord word with
     | .ok sv => .ok { d with structValues := sv }
     | .error e => .error e)
  else .error (Err.unknownValue word)

/-- `impl FromMeta for DeriveInputShapeSet`: `from_list` (first error returns) -/
def fromListLoop (d : DISS) : List NestedMeta → Outcome DISS
  | [] => .ok d
  | .item (.path p) :: rest =>
      (match p.getIdent with
       | none => .err ((Err.unknownValue p.toStr).withSpan p.span)
       | some word =>
          match d.applyWord word with
          | .ok d' => fromListLoop d' rest
          | .error e => .err (e.withSpan p.first))
  | n :: _ => .err ((Err.unsupportedFormat "non-word").withSpan n.span)

def fromList (items : List NestedMeta) : Outcome DISS := fromListLoop {} items

end DISS

namespace DISS

/-- the `for variant in &data.variants { variant_errors.handle(enum_check.check(variant)) }` loop -/
def checkVariants (enumCheck : ShapeSet) (errs : List Err) : List Shape → Outcome (List Err)
  | [] => .ok errs
  | v :: vs => match enumCheck.check v with
      | .ok () => checkVariants enumCheck errs vs
      | .err e => checkVariants enumCheck (errs ++ [e]) vs
      | .panic m => .panic m

/-- the `Data::Struct` arm of the emitted `__validate_body` -/
def validateStruct (structCheck enumCheck : ShapeSet) (s : Shape) : Outcome Unit :=
  if structCheck.isEmpty then
    match enumCheck.display with
    | .ok disp => .err (Err.new (.unsupportedShape "struct" (some ("enum with " ++ disp))))
    | .err e => .err e
    | .panic m => .panic m
  else structCheck.check s

/-- the `Data::Enum` arm -/
def validateEnum (structCheck enumCheck : ShapeSet) (variants : List Shape) : Outcome Unit :=
  if enumCheck.isEmpty then
    match structCheck.display with
    | .ok disp => .err (Err.new (.unsupportedShape "enum" (some ("struct with " ++ disp))))
    | .err e => .err e
    | .panic m => .panic m
  else match checkVariants enumCheck [] variants with
    | .ok [] => .ok ()
    | .ok errs => Err.bundleErr errs
    | .err e => .err e
    | .panic m => .panic m

/-- the emitted `__validate_body` -/
def validateBody (d : DISS) (b : BodyShape) : Outcome Unit :=
  if d.any then .ok () else
  match b with
  | .enum variants => validateEnum d.structValues.toShapeSet d.enumValues.toShapeSet variants
  | .struct s => validateStruct d.structValues.toShapeSet d.enumValues.toShapeSet s
  | .union => .err (Err.new (.unsupportedShape "union" none))

end DISS
