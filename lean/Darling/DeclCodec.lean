import Darling.SyntaxCodec
import Darling.Decl
import Darling.Driver.FM
import Darling.Options
/- wire decoding of declarations / input elements -/
open Sexp Codec SyntaxCodec

namespace DeclCodec

def attrOf? : Sexp → Option Attr
  | .list [.atom "attr", p, m, .str toks, lo, hi] => do
      pure { path := ← pathOf? p, body := ← metaOf? m, toks, span := ← mkSpan? lo hi }
  | _ => none

def styleOf? : Sexp → Option Style
  | .atom "named" => some .named
  | .atom "tuple" => some .tuple
  | .atom "unit" => some .unit
  | _ => none

/-- field types outside the closed universe (only ever magic / skipped fields) decode to `ignored` -/
def fieldTy (s : Sexp) : Ty :=
  match Driver.FM.tyOf? s with
  | some t => t
  | none => .ignored

def fieldOf? : Sexp → Option FieldD
  | .list [.atom "field", id, ty, .str tyToks, .str vis, .list attrs, ilo, ihi, lo, hi] => do
      pure { ident := ← optStr? id, ty := fieldTy ty, tyToks, vis, attrs := ← attrs.mapM attrOf?,
             identSpan := mkSpan? ilo ihi, span := ← mkSpan? lo hi }
  | .list [.atom "field", id, ty, .str tyToks, .str vis, .list attrs, ilo, ihi, lo, hi, .str toks] => do
      pure { ident := ← optStr? id, ty := fieldTy ty, tyToks, vis, attrs := ← attrs.mapM attrOf?,
             identSpan := mkSpan? ilo ihi, span := ← mkSpan? lo hi, toks }
  | _ => none

def variantOf? : Sexp → Option (VariantD × Span)
  | .list [.atom "variant", .str id, st, .list fields, .list attrs, disc, ilo, ihi, lo, hi] => do
      pure ({ ident := id, style := ← styleOf? st, fields := ← fields.mapM fieldOf?, attrs := ← attrs.mapM attrOf?,
              discriminant := ← optStr? disc, span := ← mkSpan? lo hi }, ← mkSpan? ilo ihi)
  | .list [.atom "variant", .str id, st, .list fields, .list attrs, disc, ilo, ihi, lo, hi, .str toks] => do
      pure ({ ident := id, style := ← styleOf? st, fields := ← fields.mapM fieldOf?, attrs := ← attrs.mapM attrOf?,
              discriminant := ← optStr? disc, span := ← mkSpan? lo hi, toks }, ← mkSpan? ilo ihi)
  | _ => none

def bodyOf? : Sexp → Option (BodyD × List (String × Span))
  | .list [.atom "struct", st, .list fields] => do
      let fs ← fields.mapM fieldOf?
      -- remember where the `attrs` magic field's identifier is (for a derive-time diagnostic)
      let extra := fs.filterMap (fun f => match f.ident, f.identSpan with
        | some "attrs", some sp => some ("#attrs", sp)
        | _, _ => none)
      pure (.struct (← styleOf? st) fs, extra)
  | .list [.atom "enum", .list vs] => do
      let xs ← vs.mapM variantOf?
      pure (.enum (xs.map (·.1)), xs.map (fun x => (x.1.ident, x.2)))
  | .atom "union" => some (.union, [])
  | _ => none

def typeParamOf? : Sexp → Option TypeParamD
  | .list [.atom "typaram", .str id, .list attrs, bounds, dflt] => do
      pure { ident := id, attrs := ← attrs.mapM attrOf?, bounds := ← strs? bounds, default := ← optStr? dflt }
  | .list [.atom "typaram", .str id, .list attrs, bounds, dflt, .str toks] => do
      pure { ident := id, attrs := ← attrs.mapM attrOf?, bounds := ← strs? bounds, default := ← optStr? dflt, toks }
  | _ => none

def gparamOf? : Sexp → Option GParamD
  | .list [.atom "tp", t] => (typeParamOf? t).map .type
  | .list [.atom "lt", .str s] => some (.lifetime s)
  | .list [.atom "ct", .str s] => some (.const s)
  | _ => none

def declOf? : Sexp → Option (DeclD × Options.DeclSpans)
  | .list [.atom "decl", .str id, .str vis, .list (.atom "generics" :: tps :: .str gt :: .str wt :: rest), .list attrs, body, ilo, ihi] => do
      let (b, spans) ← bodyOf? body
      let params ← match rest with
        | .list (.atom "params" :: ps) :: _ => ps.mapM gparamOf?
        | _ => some []
      let hasWhere := match rest with
        | [_, .list [.atom "haswhere", b]] => (b.asBool?).getD (!wt.isEmpty)
        | _ => !wt.isEmpty
      pure ({ ident := id, vis, generics := { typeParams := ← strs? tps, toks := gt, whereToks := wt, hasWhere, params },
              attrs := ← attrs.mapM attrOf?, body := b },
            { ident := ← mkSpan? ilo ihi, variantIdents := spans })
  | _ => none

def traitOf? : Sexp → Option Options.Trait
  | .atom "FromMeta" => some .fromMeta
  | .atom "FromDeriveInput" => some .fromDeriveInput
  | .atom "FromField" => some .fromField
  | .atom "FromVariant" => some .fromVariant
  | .atom "FromTypeParam" => some .fromTypeParam
  | .atom "FromAttributes" => some .fromAttributes
  | _ => none

end DeclCodec
