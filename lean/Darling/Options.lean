import Darling.Decl
import Darling.Shape
import Darling.Rename
/-
  Derive-time model: core/src/options/*.rs — reading `#[darling(..)]` options off a receiver
  declaration.  Each `parse_nested` is mirrored as a `step` (state, item) ↦ (state', error?):
  the same `if / else if` chain in the same order, including *where* each conflict is tested and
  which assignments happen before an early `return Err(..)`.
-/
open Wrappers Scalars SynTypes

namespace Options

inductive DefaultExpr where
  | inherit
  | explicit (pathToks : String)
  | trait_ (span : Span)
  deriving Repr, Inhabited, BEq

/-- `impl FromMeta for DefaultExpression` -/
def defaultFromMeta (o : Oracle) (m : Meta) : Outcome DefaultExpr :=
  match m with
  | .path _ => .ok (.trait_ m.span)
  | .list _ _ _ _ _ _ => .err ((Err.unsupportedFormat "list").withSpan m.span)
  | .nameValue _ e _ _ => (pathFromExpr (o.parseSyn "Path") id e).map .explicit

structure Post where
  transformer : String      -- "map" | "and_then"
  function : String         -- printed path
  deriving Repr, Inhabited, BEq

structure FieldOpts where
  attrName : Option String := none
  dflt : Option DefaultExpr := none
  with_ : Option String := none
  skip : Option (Bool × Option Span) := none        -- `Option<SpannedValue<bool>>`
  post : Option Post := none
  multiple : Option Bool := none
  flatten : Option Span := none                     -- `Flag`; `some _` = present
  deriving Repr, Inhabited

/-- typed readers of option values (the `FromMeta::from_meta(mi)?` calls) -/
def readOptString (m : Meta) : Outcome (Option String) := (optionOf some none (stringHooks id)).fromMeta m
def readOptBool (m : Meta) : Outcome (Option Bool) := (optionOf some none (boolHooks id)).fromMeta m
def readOptSpannedBool (m : Meta) : Outcome (Option (Bool × Option Span)) :=
  (optionOf some none (spannedOf (fun b sp => (b, sp)) (boolHooks id))).fromMeta m
def readFlag (m : Meta) : Outcome (Option Span) := (flagHooks id).fromMeta m
def readCallable (m : Meta) : Outcome String := (callableHooks id).fromMeta m
def readPath (o : Oracle) (m : Meta) : Outcome String := (pathHooks (o.parseSyn "Path") id).fromMeta m
def readOptPath (o : Oracle) (m : Meta) : Outcome (Option String) :=
  (optionOf some none (pathHooks (o.parseSyn "Path") id)).fromMeta m

/-- result of one `parse_nested` call -/
inductive StepR (σ : Type) where
  | ok (s : σ)
  | err (s : σ) (e : Err)      -- the state as it is when `Err` is returned
  | panic (m : String)

def skipTrue (s : FieldOpts) : Bool := match s.skip with | some (b, _) => b | none => false

/-- `Error::duplicate_field_path(path).with_span(mi)` -/
def dupErr (m : Meta) : Err := (Err.new (.duplicateField m.path'.toStr)).withSpan m.span
/-- `Error::unknown_field_path(path).with_span(mi)` -/
def unknownErr (m : Meta) : Err := (Err.new (.unknownField m.path'.toStr none)).withSpan m.span
def conflictErr (a b : String) (m : Meta) : Err :=
  (Err.custom ("`" ++ a ++ "` and `" ++ b ++ "` cannot be used together")).withSpan m.span
def exclusiveErr (a b : String) (m : Meta) : Err :=
  (Err.custom ("Options `" ++ a ++ "` and `" ++ b ++ "` are mutually exclusive")).withSpan m.span

/-- helper: continue with the value of a `FromMeta::from_meta(mi)?` -/
def withRead {σ β : Type} (s : σ) (r : Outcome β) (k : β → StepR σ) : StepR σ :=
  match r with
  | .ok v => k v
  | .err e => .err s e
  | .panic m => .panic m

/-- `conflicts.finish()?`: nothing, the single error, or a bundle (`Error::multiple`) -/
def bundleStep {σ : Type} (s : σ) : List Err → StepR σ
  | [] => .ok s
  | [e] => .err s e
  | es => .err s (.multi es [] none)

/-- `impl ParseAttribute for InputField`: `parse_nested` -/
def fieldStep (o : Oracle) (s : FieldOpts) (mi : Meta) : StepR FieldOpts :=
  let p := mi.path'
  if p.isIdent "rename" then
    if s.attrName.isSome then .err s (dupErr mi) else
    withRead s (readOptString mi) fun v =>
      let s := { s with attrName := v }
      if s.flatten.isSome then .err s (conflictErr "flatten" "rename" mi) else .ok s
  else if p.isIdent "default" then
    if s.dflt.isSome then .err s (dupErr mi) else
    withRead s (defaultFromMeta o mi) fun v => .ok { s with dflt := some v }
  else if p.isIdent "with" then
    if s.with_.isSome then .err s (dupErr mi) else
    withRead s (readCallable mi) fun v =>
      let s := { s with with_ := some v }
      if s.flatten.isSome then .err s (conflictErr "flatten" "with" mi) else .ok s
  else if p.isIdent "skip" then
    if s.skip.isSome then .err s (dupErr mi) else
    withRead s (readOptSpannedBool mi) fun v =>
      let s := { s with skip := v }
      if skipTrue s && s.flatten.isSome then .err s (conflictErr "flatten" "skip" mi) else .ok s
  else if p.isIdent "map" || p.isIdent "and_then" then
    let transformer := if p.isIdent "map" then "map" else "and_then"
    match s.post with
    | some pt =>
        .err s (if transformer == pt.transformer then dupErr mi else exclusiveErr transformer pt.transformer mi)
    | none => withRead s (readPath o mi) fun f => .ok { s with post := some ⟨transformer, f⟩ }
  else if p.isIdent "multiple" then
    if s.multiple.isSome then .err s (dupErr mi) else
    withRead s (readOptBool mi) fun v =>
      let s := { s with multiple := v }
      if s.multiple == some true && s.flatten.isSome then .err s (conflictErr "flatten" "multiple" mi) else .ok s
  else if p.isIdent "flatten" then
    if s.flatten.isSome then .err s (dupErr mi) else
    withRead s (readFlag mi) fun v =>
      -- `Flag::from_meta` of a bare word always yields a present flag
      let s := { s with flatten := v }
      let conflicts :=
        (if s.multiple == some true then [conflictErr "flatten" "multiple" mi] else []) ++
        (if s.attrName.isSome then [conflictErr "flatten" "rename" mi] else []) ++
        (if s.with_.isSome then [conflictErr "flatten" "with" mi] else []) ++
        (if skipTrue s then [conflictErr "flatten" "skip" mi] else [])
      bundleStep s conflicts
  else .err s (unknownErr mi)

/-- `parse_attr`: the items of one `#[darling(..)]` attribute applied to a target -/
def parseAttrItems {σ : Type} (step : σ → Meta → StepR σ) :
    σ → List Err → List NestedMeta → Except String (σ × List Err)
  | s, errs, [] => .ok (s, errs)
  | s, errs, .item mi :: rest =>
      (match step s mi with
       | .ok s' => parseAttrItems step s' errs rest
       | .err s' e => parseAttrItems step s' (errs ++ [e]) rest
       | .panic m => .error m)
  | s, errs, .lit l :: rest =>
      parseAttrItems step s (errs ++ [(Err.unsupportedFormat "literal").withSpan l.span]) rest

/-- is this attribute `#[darling …]`?  (`attr.meta.path() == &parse_quote!(darling)`) -/
def isDarling (a : Attr) : Bool := a.path.isIdent "darling"

/-- `parse_attr` for one attribute: its error (if any) is *one* error pushed by
    `parse_attributes` -/
def parseAttr {σ : Type} (step : σ → Meta → StepR σ) (s : σ) (a : Attr) : Except String (σ × Option Err) :=
  match a.body with
  | .list _ items bad _ _ _ =>
      (match bad with
       | some (msg, sp) => .ok (s, some (.leaf (.custom msg) [] (some sp)))      -- `parse_meta_list(..)?`
       | none =>
          match parseAttrItems step s [] items with
          | .error m => .error m
          | .ok (s', []) => .ok (s', none)
          | .ok (s', errs) => (match Err.multiple errs with
              | .ok e => .ok (s', some e)
              | _ => .error "unreachable: multiple of a non-empty list"))
  | other => .ok (s, some ((Err.unsupportedFormat "non-list").withSpan other.span))

/-- `ParseAttribute::parse_attributes`: all `#[darling]` attributes of an element; errors accumulate -/
def parseAttributes {σ : Type} (step : σ → Meta → StepR σ) : σ → List Err → List Attr → Except String (σ × List Err)
  | s, errs, [] => .ok (s, errs)
  | s, errs, a :: rest =>
      if isDarling a then
        match parseAttr step s a with
        | .error m => .error m
        | .ok (s', none) => parseAttributes step s' errs rest
        | .ok (s', some e) => parseAttributes step s' (errs ++ [e]) rest
      else parseAttributes step s errs rest

/-- `errors.finish_with(self)` -/
def finishWith {σ : Type} (r : Except String (σ × List Err)) : Outcome σ :=
  match r with
  | .error m => .panic m
  | .ok (s, []) => .ok s
  | .ok (_, errs) => Err.bundleErr errs

end Options

/-! ## container level -/
namespace Options

/-- `options::Core` (the option part) -/
structure CoreOpts where
  dflt : Option DefaultExpr := none
  renameRule : RenameRule := .none
  post : Option Post := none
  allowUnknown : Option Bool := none
  deriving Repr, Inhabited

def readRenameRule (m : Meta) : Outcome RenameRule :=
  (renameRuleHooks renameRuleNames (fun s => (RenameRule.ofString? s).getD .none)).fromMeta m

def readOptWherePreds (o : Oracle) (m : Meta) : Outcome (Option String) :=
  (optionOf some none (wherePredsHooks (o.parseSyn "WherePreds") id)).fromMeta m

/-- `impl ParseAttribute for Core`: `parse_nested` -/
def coreStep (o : Oracle) (s : CoreOpts) (mi : Meta) : StepR CoreOpts :=
  let p := mi.path'
  if p.isIdent "default" then
    if s.dflt.isSome then .err s ((Err.new (.duplicateField "default")).withSpan mi.span) else
    withRead s (defaultFromMeta o mi) fun v => .ok { s with dflt := some v }
  else if p.isIdent "rename_all" then
    withRead s (readRenameRule mi) fun v => .ok { s with renameRule := v }
  else if p.isIdent "map" || p.isIdent "and_then" then
    let transformer := if p.isIdent "map" then "map" else "and_then"
    match s.post with
    | some pt =>
        if transformer == pt.transformer then .err s ((Err.new (.duplicateField transformer)).withSpan mi.span)
        else .err s (exclusiveErr transformer pt.transformer mi)
    | none => withRead s (readPath o mi) fun f => .ok { s with post := some ⟨transformer, f⟩ }
  else if p.isIdent "bound" then
    withRead s (readOptWherePreds o mi) fun _ => .ok s
  else if p.isIdent "allow_unknown_fields" then
    if s.allowUnknown.isSome then .err s ((Err.new (.duplicateField "allow_unknown_fields")).withSpan mi.span) else
    withRead s (readOptBool mi) fun v => .ok { s with allowUnknown := v }
  else .err s (unknownErr mi)

inductive FwdFilter where
  | all
  | only (names : List String)
  deriving Repr, Inhabited, BEq

def FwdFilter.isEmpty : FwdFilter → Bool
  | .all => false
  | .only l => l.isEmpty

/-- `options::OuterFrom` -/
structure OuterOpts where
  core : CoreOpts := {}
  attrNames : List String := []
  forward : Option FwdFilter := none
  fromIdent : Bool := false
  supports : Option DISS := none          -- FromDeriveInput only
  vsupports : Option DataShape := none    -- FromVariant only
  deriving Inhabited

def pathNamesHooks : Hooks (List String) :=
  { fromList? := some (fun items => pathListFromList (fun p => p.toStr) items) }

def readPathList (m : Meta) : Outcome (List String) := pathNamesHooks.fromMeta m

/-- `Option<ForwardAttrsFilter>` -/
def fwdHooks : Hooks FwdFilter :=
  { fromWord? := some (Outcome.ok FwdFilter.all)
    fromList? := some (fun items => (pathListFromList (fun p => p.toStr) items).map FwdFilter.only) }

def readOptFwd (m : Meta) : Outcome (Option FwdFilter) :=
  (optionOf some none fwdHooks).fromMeta m

def dissHooks : Hooks DISS := { fromList? := some DISS.fromList }
def dataShapeHooks : Hooks DataShape := { fromList? := some DataShape.fromList }
def readOptDISS (m : Meta) : Outcome (Option DISS) := (optionOf some none dissHooks).fromMeta m
def readOptDataShape (m : Meta) : Outcome (Option DataShape) := (optionOf some none dataShapeHooks).fromMeta m

def liftCore {σ : Type} (s : σ) (get : σ → CoreOpts) (set : σ → CoreOpts → σ) (r : StepR CoreOpts) : StepR σ :=
  match r with
  | .ok c => .ok (set s c)
  | .err c e => .err (set s c) e
  | .panic m => .panic m

/-- `impl ParseAttribute for OuterFrom`: `parse_nested` -/
def outerStep (o : Oracle) (s : OuterOpts) (mi : Meta) : StepR OuterOpts :=
  let p := mi.path'
  if p.isIdent "attributes" then
    withRead s (readPathList mi) fun v => .ok { s with attrNames := v }
  else if p.isIdent "forward_attrs" then
    withRead s (readOptFwd mi) fun v => .ok { s with forward := v }
  else if p.isIdent "from_ident" then
    .ok { s with core := { s.core with dflt := some (.trait_ p.span) }, fromIdent := true }
  else liftCore s (·.core) (fun s c => { s with core := c }) (coreStep o s.core mi)

inductive Trait where
  | fromMeta | fromDeriveInput | fromField | fromVariant | fromTypeParam | fromAttributes
  deriving Repr, DecidableEq, Inhabited

/-- the element-level traits' `parse_nested` (FdiOptions / FromVariantOptions add `supports`) -/
def outerTraitStep (t : Trait) (o : Oracle) (s : OuterOpts) (mi : Meta) : StepR OuterOpts :=
  if mi.path'.isIdent "supports" && t == .fromDeriveInput then
    withRead s (readOptDISS mi) fun v => .ok { s with supports := v }
  else if mi.path'.isIdent "supports" && t == .fromVariant then
    withRead s (readOptDataShape mi) fun v => .ok { s with vsupports := v }
  else outerStep o s mi

/-- `options::FromMetaOptions` -/
structure FromMetaOpts where
  core : CoreOpts := {}
  fromWord : Option (String × Span) := none     -- callable (printed) and its span
  fromNone : Option String := none
  deriving Inhabited

def fromMetaStep (o : Oracle) (s : FromMetaOpts) (mi : Meta) : StepR FromMetaOpts :=
  let p := mi.path'
  if p.isIdent "from_word" then
    if s.fromWord.isSome then .err s ((Err.new (.duplicateField p.toStr)).withSpan p.span) else
    withRead s (readCallable mi) fun v =>
      let sp := match mi with
        | .nameValue _ e _ _ => e.span
        | m => m.span
      .ok { s with fromWord := some (v, sp) }
  else if p.isIdent "from_none" then
    if s.fromNone.isSome then .err s ((Err.new (.duplicateField p.toStr)).withSpan p.span) else
    withRead s (readCallable mi) fun v => .ok { s with fromNone := some v }
  else liftCore s (·.core) (fun s c => { s with core := c }) (coreStep o s.core mi)

/-! ## variants and the body -/

structure VariantOpts where
  attrName : Option String := none
  skip : Option Bool := none
  word : Option (Bool × Option Span) := none
  deriving Repr, Inhabited

/-- `impl ParseAttribute for InputVariant`: `parse_nested`; `isUnit` = `self.data.is_unit()` -/
def variantStep (isUnit : Bool) (s : VariantOpts) (mi : Meta) : StepR VariantOpts :=
  let p := mi.path'
  if p.isIdent "rename" then
    if s.attrName.isSome then .err s (dupErr mi) else
    withRead s (readOptString mi) fun v => .ok { s with attrName := v }
  else if p.isIdent "skip" then
    if s.skip.isSome then .err s (dupErr mi) else
    withRead s (readOptBool mi) fun v => .ok { s with skip := v }
  else if p.isIdent "word" then
    if s.word.isSome then .err s (dupErr mi) else
    if !isUnit then
      .err s ((Err.custom "Unexpected field: `word`. `#[darling(word)]` can only be applied to a unit variant").withSpan mi.span)
    else withRead s (readOptSpannedBool mi) fun v => .ok { s with word := v }
  else .err s (unknownErr mi)

/-- a field after `InputField::from_field(.., Some(parent))` -/
structure RField where
  ident : String
  name : String                 -- `name_in_attr`
  ty : Ty
  with_ : Option String
  post : Option Post
  dflt : Option DefaultExpr
  skip : Bool
  multiple : Bool
  flatten : Bool
  flattenSpan : Option Span := none
  deriving Inhabited

/-- the default chain of `InputField::with_inherited`: own default > the container's (inherited per
    field) > `Default::default()` for a skipped field > none -/
def fieldDefault (own container : Option DefaultExpr) (skip : Option (Bool × Option Span)) : Option DefaultExpr :=
  match own, container with
  | some d, _ => some d
  | none, some _ => some .inherit
  | none, none => (match skip with
      | some (true, sp) => some (.trait_ (sp.getD default))
      | _ => none)

/-- `InputField::with_inherited` + `as_codegen_field` -/
def resolveField (core : CoreOpts) (ident : String) (ty : Ty) (s : FieldOpts) : Outcome RField :=
  let name : Outcome String := match s.attrName with
    | some n => .ok n
    | none => core.renameRule.applyToField ident
  name.bind fun name =>
    let dflt : Option DefaultExpr := fieldDefault s.dflt core.dflt s.skip
    .ok { ident, name, ty, with_ := s.with_, post := s.post, dflt,
          skip := skipTrue s, multiple := s.multiple.getD false, flatten := s.flatten.isSome,
          flattenSpan := s.flatten }

/-- `InputField::from_field(f, Some(core))` -/
def fieldFromDecl (o : Oracle) (core : CoreOpts) (f : FieldD) : Outcome RField :=
  match finishWith (parseAttributes (fieldStep o) {} [] f.attrs) with
  | .ok s => resolveField core (f.ident.getD "__unnamed") f.ty s
  | .err e => .err e
  | .panic m => .panic m

structure RVariant where
  ident : String
  name : String
  style : Style
  fields : List RField
  skip : Bool
  word : Option (Bool × Option Span)
  allowUnknown : Bool
  deriving Inhabited

/-- fields of a variant: `InputField::from_field(item, parent)?` — the first failing field
    aborts the variant -/
def variantFields (o : Oracle) (core : CoreOpts) : List FieldD → Outcome (List RField)
  | [] => .ok []
  | f :: rest => match fieldFromDecl o core f with
      | .ok rf => (variantFields o core rest).map (rf :: ·)
      | .err e => .err e
      | .panic m => .panic m

/-- `InputVariant::from_variant(v, Some(core))` -/
def variantFromDecl (o : Oracle) (core : CoreOpts) (v : VariantD) : Outcome RVariant :=
  match finishWith (parseAttributes (variantStep (v.style == .unit)) {} [] v.attrs) with
  | .err e => .err e
  | .panic m => .panic m
  | .ok s =>
      match variantFields o core v.fields with
      | .err e => .err e
      | .panic m => .panic m
      | .ok fs =>
          let name : Outcome String := match s.attrName with
            | some n => .ok n
            | none => core.renameRule.applyToVariant v.ident
          name.bind fun name =>
            .ok { ident := v.ident, name, style := v.style, fields := fs, skip := s.skip.getD false,
                  word := s.word, allowUnknown := core.allowUnknown.getD false }

end Options

/-! ## whole declarations -/
namespace Options

inductive RData where
  | struct (style : Style) (fields : List RField)
  | enum (variants : List RVariant)
  deriving Inhabited

/-- `codegen::TraitImpl` -/
structure RCore where
  ident : String
  data : RData
  dflt : Option DefaultExpr
  post : Option Post
  allowUnknown : Bool
  typeParams : List String := []
  deriving Inhabited

structure RFromMeta where
  base : RCore
  /-- `from_word`: a user callable, or the generated `|| Ok(Self::Variant)` of a `word` variant -/
  fromWord : Option (Sum String String)     -- inl callable | inr variant ident
  fromNone : Option String
  deriving Inhabited

/-- `ForwardedField` -/
structure Forwarded where
  ident : String
  with_ : Option String
  deriving Repr, Inhabited

structure ROuter where
  trait_ : Trait
  base : RCore
  attrNames : List String
  forward : Option FwdFilter
  attrsField : Option Forwarded
  dataField : Option Forwarded
  magic : List String              -- magic fields present (by their Rust name)
  fromIdent : Bool
  supports : Option DISS
  vsupports : Option DataShape
  deriving Inhabited

inductive Derived where
  | fromMeta (r : RFromMeta)
  | outer (r : ROuter)
  deriving Inhabited

/-- `impl ParseAttribute for ForwardedField`; `sim` = strsim score of the unknown name against "with" -/
def forwardedStep (o : Oracle) (sim : String → Option (Nat × String)) (s : Option String) (mi : Meta) : StepR (Option String) :=
  if mi.path'.isIdent "with" then
    if s.isSome then .err s (dupErr mi) else
    withRead s (readOptPath o mi) fun v => .ok v
  else .err s ((Err.new (.unknownField mi.path'.toStr (sim mi.path'.toStr))).withSpan mi.span)

/-- `ForwardedField::from_field` -/
def forwardedFromField (o : Oracle) (sim : String → Option (Nat × String)) (f : FieldD) : Outcome Forwarded :=
  match f.ident with
  | none => .err ((Err.custom "forwarded field must be named field").withSpan f.span)
  | some id =>
      match finishWith (parseAttributes (forwardedStep o sim) none [] f.attrs) with
      | .ok w => .ok ⟨id, w⟩
      | .err e => .err e
      | .panic m => .panic m

/-- the parse state of a struct/enum body -/
structure BodySt where
  fields : List RField := []
  variants : List RVariant := []
  attrsField : Option Forwarded := none
  dataField : Option Forwarded := none
  magic : List String := []
  errs : List Err := []
  deriving Inhabited

/-- magic field names recognised by each element-level trait's `parse_field`, in matching order
    (trait-specific names first, then `OuterFrom`'s) -/
def magicNames : Trait → List String
  | .fromMeta => []
  | .fromDeriveInput => ["vis", "data", "generics", "ident", "attrs"]
  | .fromField => ["vis", "ty", "ident", "attrs"]
  | .fromVariant => ["discriminant", "fields", "ident", "attrs"]
  | .fromTypeParam => ["bounds", "default", "ident", "attrs"]
  | .fromAttributes => ["ident", "attrs"]

/-- one `errors.handle(self.parse_field(field))` -/
def parseFieldStep (t : Trait) (o : Oracle) (sim : String → Option (Nat × String)) (core : CoreOpts)
    (st : BodySt) (f : FieldD) : Except String BodySt :=
  let isMagic := match f.ident with
    | some id => (magicNames t).contains id
    | none => false
  if isMagic then
    let id := f.ident.getD ""
    if id == "attrs" || id == "data" then
      match forwardedFromField o sim f with
      | .ok fw => .ok (if id == "attrs" then { st with attrsField := some fw, magic := st.magic ++ [id] }
                       else { st with dataField := some fw, magic := st.magic ++ [id] })
      | .err e => .ok { st with errs := st.errs ++ [e] }
      | .panic m => .error m
    else .ok { st with magic := st.magic ++ [id] }
  else
    match fieldFromDecl o core f with
    | .ok rf => .ok { st with fields := st.fields ++ [rf] }
    | .err e => .ok { st with errs := st.errs ++ [e] }
    | .panic m => .error m

def parseFields (t : Trait) (o : Oracle) (sim : String → Option (Nat × String)) (core : CoreOpts) :
    BodySt → List FieldD → Except String BodySt
  | st, [] => .ok st
  | st, f :: rest => match parseFieldStep t o sim core st f with
      | .ok st' => parseFields t o sim core st' rest
      | .error m => .error m

/-- variants: FromMeta parses them; every element-level trait rejects each one -/
def parseVariants (t : Trait) (o : Oracle) (core : CoreOpts) : BodySt → List VariantD → Except String BodySt
  | st, [] => .ok st
  | st, v :: rest =>
      if t == .fromMeta then
        match variantFromDecl o core v with
        | .ok rv => parseVariants t o core { st with variants := st.variants ++ [rv] } rest
        | .err e => parseVariants t o core { st with errs := st.errs ++ [e] } rest
        | .panic m => .error m
      else
        parseVariants t o core { st with errs := st.errs ++ [(Err.unsupportedFormat "enum variant").withSpan v.span] } rest

/-- `Core::validate_body`: more than one `flatten` field -/
def flattenErrs (fields : List RField) : List Err :=
  let targets := fields.filter (·.flatten)
  if targets.length > 1 then
    targets.map (fun f => (Err.custom "`#[darling(flatten)]` can only be applied to one field").withSpan (f.flattenSpan.getD default))
  else []

/-- `FromMetaOptions::validate_body` -/
def fromMetaValidate (declIdentSpan : Span) (style? : Option Style) (nFields : Nat) (fm : FromMetaOpts)
    (st : BodySt) (variantSpans : List (String × Span)) : List Err :=
  match style? with
  | some style =>
      flattenErrs st.fields ++
      (if style == .tuple && nFields != 1 then
         [(Err.custom "FromMeta can only be derived for tuple structs with exactly one field").withSpan declIdentSpan]
       else []) ++
      (match fm.fromWord with
       | some (_, sp) =>
           if style == .unit then
             [(Err.custom "`from_word` cannot be used on unit structs because it conflicts with the generated impl").withSpan sp]
           else if style == .tuple && nFields == 1 then
             [(Err.custom "`from_word` cannot be used on newtype structs because the implementation is entirely delegated to the inner type").withSpan sp]
           else []
       | none => [])
  | none =>
      let words := st.variants.filterMap (·.word)
      -- `Core::validate_body`: the one-flatten rule, for the field list of every variant
      (st.variants.flatMap (fun v => flattenErrs v.fields)) ++
      (st.variants.filterMap (fun v =>
         if v.style == .tuple && v.fields.length != 1 then
           some ((Err.custom "FromMeta can only be derived for tuple variants with exactly one field").withSpan
             ((variantSpans.find? (·.1 == v.ident)).map (·.2) |>.getD default))
         else none)) ++
      (if !words.isEmpty then
         match fm.fromWord with
         | some (_, sp) => [(Err.custom "`from_word` cannot be used with an enum that also uses `word`").withSpan sp]
         | none => []
       else []) ++
      (if words.length > 1 then
         words.map (fun w => (Err.custom "`#[darling(word)]` can only be applied to one variant").withSpan (w.2.getD default))
       else [])

/-- the first non-skipped variant with `word = true` (a skipped variant is never produced) -/
def wordVariant (vs : List RVariant) : Option String :=
  (vs.find? (fun v => !v.skip && (match v.word with | some (b, _) => b | none => false))).map (·.ident)

structure DeclSpans where
  ident : Span := default
  variantIdents : List (String × Span) := []

/-- `FromMetaOptions::new(di)` followed by code generation -/
def deriveFromMeta (o : Oracle) (sp : DeclSpans) (d : DeclD) : Outcome Derived :=
  match d.body with
  | .union => .err (Err.custom "Unions are not supported")
  | body =>
    let start : FromMetaOpts := { core := { renameRule := match body with | .enum _ => .snake | _ => .none } }
    match finishWith (parseAttributes (fromMetaStep o) start [] d.attrs) with
    | .err e => .err e
    | .panic m => .panic m
    | .ok fm =>
      let bodyR : Except String BodySt := match body with
        | .struct _ fs => parseFields .fromMeta o (fun _ => none) fm.core {} fs
        | .enum vs => parseVariants .fromMeta o fm.core {} vs
        | .union => .ok {}
      match bodyR with
      | .error m => .panic m
      | .ok st =>
        let (style?, n) : Option Style × Nat := match body with
          | .struct s fs => (some s, fs.length)
          | _ => (none, 0)
        -- `data.len()` in `validate_body` counts the fields that were parsed successfully
        let errs := st.errs ++ fromMetaValidate sp.ident style? (if style?.isSome then st.fields.length else n) fm st sp.variantIdents
        match errs with
        | [] =>
            let data : RData := match body with
              | .struct s _ => .struct s st.fields
              | _ => .enum st.variants
            .ok (.fromMeta {
              base := { ident := d.ident, data, dflt := fm.core.dflt, post := fm.core.post,
                        allowUnknown := fm.core.allowUnknown.getD false, typeParams := d.generics.typeParams },
              fromWord := match fm.fromWord with
                | some (c, _) => some (.inl c)
                | none => (match body with
                    | .enum _ => (wordVariant st.variants).map .inr
                    | _ => none),
              fromNone := fm.fromNone })
        | errs => Err.bundleErr errs

/-- `FdiOptions::new` / `FromFieldOptions::new` / … followed by code generation -/
def deriveOuter (t : Trait) (o : Oracle) (sim : String → Option (Nat × String)) (sp : DeclSpans) (d : DeclD) : Outcome Derived :=
  match d.body with
  | .union => .err (Err.custom "Unions are not supported")
  | .enum [] => .err ((Err.new (.unsupportedShape "enum" none)).withSpan sp.ident)   -- `OuterFrom::start`
  | body =>
    match finishWith (parseAttributes (outerTraitStep t o) {} [] d.attrs) with
    | .err e => .err e
    | .panic m => .panic m
    | .ok oo =>
      let bodyR : Except String BodySt := match body with
        | .struct _ fs => parseFields t o sim oo.core {} fs
        | .enum vs => parseVariants t o oo.core {} vs
        | .union => .ok {}
      match bodyR with
      | .error m => .panic m
      | .ok st =>
        let isEnum := match body with | .enum _ => true | _ => false
        let validate :=
          flattenErrs st.fields ++
          (match st.attrsField with
           | some a => if oo.forward.isNone then
               [(Err.custom ("field will not be populated because `forward_attrs` is not set on the "
                  ++ (if isEnum then "enum" else "struct"))).withSpan
                  ((sp.variantIdents.find? (·.1 == "#attrs")).map (·.2) |>.getD default)]
               else []
           | none => [])
        match st.errs ++ validate with
        | [] =>
            let (style, n) : Style × Nat := match body with
              | .struct s fs => (s, fs.length)
              | _ => (.unit, 0)
            if t == .fromAttributes && !(style == .tuple && n == 1) && oo.attrNames.isEmpty then
              .err (Err.custom "FromAttributes without attributes collects nothing")
            else
            .ok (.outer {
              trait_ := t,
              base := { ident := d.ident, data := .struct style st.fields, dflt := oo.core.dflt, post := oo.core.post,
                        allowUnknown := oo.core.allowUnknown.getD false, typeParams := d.generics.typeParams },
              attrNames := oo.attrNames, forward := oo.forward, attrsField := st.attrsField, dataField := st.dataField,
              magic := st.magic, fromIdent := oo.fromIdent, supports := oo.supports, vsupports := oo.vsupports })
        | errs => Err.bundleErr errs

def derive (t : Trait) (o : Oracle) (sim : String → Option (Nat × String)) (sp : DeclSpans) (d : DeclD) : Outcome Derived :=
  if t == .fromMeta then deriveFromMeta o sp d else deriveOuter t o sim sp d

end Options
