import Darling.Derive.Struct
import Darling.Decl
import Darling.Shape
import Darling.Options
/-
  Run-time model of the element-level receivers (`FromDeriveInput`, `FromField`, `FromVariant`,
  `FromTypeParam`, `FromAttributes`): core/src/codegen/{attr_extractor.rs, attrs_field.rs,
  from_derive_impl.rs, from_field.rs, from_variant_impl.rs, from_type_param.rs,
  from_attributes_impl.rs}, core/src/util/parse_attribute.rs, core/src/ast/data.rs.
-/
open Options (FwdFilter)

namespace Derive
variable {ν : Type}

/-- `util::parse_attribute_to_meta_list` followed by `NestedMeta::parse_meta_list(__data.tokens)` -/
inductive AttrItems where
  | items (xs : List NestedMeta)
  | err (e : Err)

def displayPath (p : Path) : String := (if p.global then "::" else "") ++ "::".intercalate p.segs

def attrItems (a : Attr) : AttrItems :=
  match a.body with
  | .list _ items bad _ _ _ =>
      (match bad with
       | some (msg, sp) => .err (.leaf (.custom msg) [] (some sp))
       | none => .items items)
  | .nameValue p _ _ sp =>
      .err ((Err.custom ("Name-value arguments are not supported. Use #[" ++ displayPath p ++ "(...)]")).withSpan sp)
  | .path _ => .items []

structure SOuter (ν : Type) where
  fields : SStruct ν
  attrNames : List String
  forward : Option FwdFilter
  /-- the `attrs` magic field: how the forwarded attributes become its value
      (`Some(__fwd_attrs)`, or the custom `with` function) -/
  attrsField : Option (List Attr → Outcome ν)

def SOuter.willParseAny (r : SOuter ν) : Bool := !r.attrNames.isEmpty
def SOuter.willFwdAny (r : SOuter ν) : Bool :=
  match r.forward with
  | some f => !f.isEmpty && r.attrsField.isSome
  | none => false

structure XState (ν : Type) where
  p : PState ν := {}
  fwd : List Attr := []

/-- one iteration of `for __attr in attrs`: the attribute's path string selects the arm -/
def stepAttr (r : SOuter ν) (st : XState ν) (a : Attr) : Except String (XState ν) :=
  let key := a.path.toStr     -- `util::path_to_string(__attr.path())`, like the declared names
  if r.willParseAny && r.attrNames.contains key then
    match attrItems a with
    | .items [] => .ok st                      -- `if __items.is_empty() { continue; }`
    | .items items => (coreLoop r.fields st.p items).map (fun p => { st with p := p })
    | .err e => .ok { st with p := st.p.push e }
  else if r.willFwdAny then
    match r.forward with
    | some .all => .ok { st with fwd := st.fwd ++ [a] }
    | some (.only names) => if names.contains key then .ok { st with fwd := st.fwd ++ [a] } else .ok st
    | none => .ok st
  else .ok st

def attrLoop (r : SOuter ν) : XState ν → List Attr → Except String (XState ν)
  | st, [] => .ok st
  | st, a :: rest => match stepAttr r st a with
      | .ok st' => attrLoop r st' rest
      | .error m => .error m

/-- `ExtractAttribute::extractor` with the value populator: the parser state after the attribute
    walk and the value of the `attrs` field (if there is one and it could be built) -/
def attrsValue (r : SOuter ν) (p : PState ν) (fwd : List Attr) : Except String (PState ν × Option ν) :=
  match r.attrsField with
  | none => .ok (p, none)
  | some mk =>
      match mk fwd with
      | .ok v => .ok (p, some v)
      | .err e => .ok (p.push e, none)
      | .panic m => .error m

def extract (r : SOuter ν) (attrs : List Attr) : Except String (PState ν × Option ν) :=
  let walked : Except String (XState ν) :=
    if !(r.willParseAny || r.willFwdAny) then .ok {} else attrLoop r {} attrs
  match walked with
  | .error m => .error m
  | .ok st => attrsValue r st.p st.fwd

/-- the `?`-chained members of the literal (generics, body): the first failure is returned -/
def lateValues : List (String × Outcome ν) → Outcome (List (String × ν))
  | [] => .ok []
  | (k, o) :: rest => match o with
      | .ok v => (lateValues rest).map ((k, v) :: ·)
      | .err e => .err e
      | .panic m => .panic m

/-- `attrs: attrs.expect("Errors were already checked")` -/
def attrsPart (r : SOuter ν) (attrsVal : Option ν) : Outcome (List (String × ν)) :=
  match r.attrsField, attrsVal with
  | none, _ => .ok []
  | some _, some v => .ok [("attrs", v)]
  | some _, none => .panic "Errors were already checked"

/-- the struct literal, once the accumulated errors have been checked -/
def assemble (r : SOuter ν) (st : PState ν) (attrsVal : Option ν)
    (lateParts : List (String × Outcome ν)) (earlyParts : List (String × ν))
    (build : List (String × ν) → ν) : Outcome ν :=
  match attrsPart r attrsVal, lateValues lateParts, initFields r.fields st r.fields.fields with
  | .ok a, .ok l, .ok inits => r.fields.post (build (earlyParts ++ a ++ l ++ inits))
  | .panic m, _, _ => .panic m
  | _, .panic m, _ => .panic m
  | _, _, .panic m => .panic m
  | .err e, _, _ => .err e
  | _, .err e, _ => .err e
  | _, _, .err e => .err e

/-- `require_fields` + `check_errors` + the literal, after the validation verdict was pushed -/
def finishChecked (r : SOuter ν) (st : PState ν) (attrsVal : Option ν)
    (lateParts : List (String × Outcome ν)) (earlyParts : List (String × ν))
    (build : List (String × ν) → ν) : Outcome ν :=
  match flattenInit r.fields st with
  | .error m => .panic m
  | .ok st =>
    let st := checkMissing r.fields.fields st
    match st.errs with
    | _ :: _ => Err.bundleErr st.errs
    | [] => assemble r st attrsVal lateParts earlyParts build

/-- what follows the attribute walk in every element-level `from_*`:
    optional shape validation (pushed into the accumulator), `require_fields`, `check_errors`,
    then the struct literal whose magic parts are evaluated in order with `?` -/
def finishOuter (r : SOuter ν) (st : PState ν) (attrsVal : Option ν) (validate : Outcome Unit)
    (lateParts : List (String × Outcome ν))     -- generics / body conversions, in literal order, each with `?`
    (earlyParts : List (String × ν))            -- ident / vis / ty / … clones
    (build : List (String × ν) → ν) : Outcome ν :=
  match validate with
  | .panic m => .panic m
  | .err e => finishChecked r (st.push e) attrsVal lateParts earlyParts build
  | .ok _ => finishChecked r st attrsVal lateParts earlyParts build

/-! ### body conversion: `ast::Data::try_from`, `ast::Fields::try_from` -/

/-- `err.at(ident)` for a field that has an identifier -/
def located (f : FieldD) (e : Err) : Err :=
  match f.ident with
  | some id => e.at id
  | none => e

/-- `Fields::<F>::try_from`: every field converted, failures accumulated, named ones located -/
def fieldsTryFrom (conv : FieldD → Outcome ν) : List FieldD → List ν → List Err → Except String (List ν × List Err)
  | [], vs, errs => .ok (vs, errs)
  | f :: rest, vs, errs =>
      match conv f with
      | .ok v => fieldsTryFrom conv rest (vs ++ [v]) errs
      | .err e => fieldsTryFrom conv rest vs (errs ++ [located f e])
      | .panic m => .error m

def variantsTryFrom (conv : VariantD → Outcome ν) : List VariantD → List ν → List Err → Except String (List ν × List Err)
  | [], vs, errs => .ok (vs, errs)
  | v :: rest, vs, errs =>
      match conv v with
      | .ok x => variantsTryFrom conv rest (vs ++ [x]) errs
      | .err e => variantsTryFrom conv rest vs (errs ++ [e])
      | .panic m => .error m

/-- `Data::<V, F>::try_from` -/
def dataTryFrom (fconv : FieldD → Outcome ν) (vconv : VariantD → Outcome ν)
    (mkStruct : Style → List ν → ν) (mkEnum : List ν → ν) (b : BodyD) : Outcome ν :=
  match b with
  | .union => .err (Err.custom "Unions are not supported")
  | .struct style fs =>
      (match fieldsTryFrom fconv fs [] [] with
       | .error m => .panic m
       | .ok (vs, []) => .ok (mkStruct style vs)
       | .ok (_, errs) => Err.bundleErr errs)
  | .enum vs =>
      (match variantsTryFrom vconv vs [] [] with
       | .error m => .panic m
       | .ok (xs, []) => .ok (mkEnum xs)
       | .ok (_, errs) => Err.bundleErr errs)

end Derive
