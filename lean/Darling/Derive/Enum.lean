import Darling.Derive.Struct
import Darling.FromMeta.Hooks
/-
  Run-time model of a derived *enum* receiver (`FromMeta`): core/src/codegen/from_meta_impl.rs
  (`Data::Enum` arm) and core/src/codegen/variant.rs (`UnitMatchArm`, `DataMatchArm`).
-/
namespace Derive
variable {ν : Type}

inductive VKind (ν : Type) where
  | unit (v : ν)
  /-- newtype variant: the inner type's `from_meta`, its `from_none()`, and the variant constructor -/
  | newtype (fromMeta : Meta → Outcome ν) (fromNone : Option ν) (wrap : ν → ν)
  /-- struct variant: its fields as a struct parser (whose `build` makes the variant value) -/
  | struct (s : SStruct ν)

structure SVariant (ν : Type) where
  name : String
  skip : Bool
  kind : VKind ν

structure SEnum (ν : Type) where
  variants : List (SVariant ν)
  score : String → String → Nat
  thr : Nat
  fromWord : Option (Outcome ν)
  fromNone : Option ν

/-- candidate names for the did-you-mean of an unknown variant: the variants that can be
    selected (skipped variants have no match arm) -/
def SEnum.names (e : SEnum ν) : List String := (e.variants.filter (!·.skip)).map (·.name)

def SEnum.unknownErr (e : SEnum ν) (name : String) : Err :=
  if e.names.isEmpty && e.variants.isEmpty then Err.new (.unknownField name none)
  else Err.new (.unknownField name (Suggest.didYouMean e.thr (e.names.map (fun a => (a, e.score name a)))))

/-- the data match arm a name selects: first non-skipped variant with that name -/
def SEnum.arm (e : SEnum ν) (name : String) : Option (SVariant ν) :=
  e.variants.find? (fun v => !v.skip && v.name == name)

/-- `DataMatchArm` for the selected variant -/
def dataArm (v : SVariant ν) (nested : Meta) : Outcome ν :=
  match v.kind with
  | .unit val =>
      (match nested with
       | .path _ => .ok val
       | _ => .err (Err.unsupportedFormat "non-path"))
  | .newtype fromMeta _ wrap => ((fromMeta nested).mapErr (·.at v.name)).map wrap
  | .struct s =>
      (match nested with
       | .list _ items bad _ _ _ =>
           (match bad with
            | some (msg, sp) => .err ((Err.leaf (.custom msg) [] (some sp)).at v.name)
            | none =>
                match coreLoop s {} items with
                | .error m => .panic m
                | .ok st => finishStruct s true (some v.name) st)
       | _ => .err (Err.unsupportedFormat "non-list"))

/-- the emitted `from_list`.  In the single-item arm whatever the selected variant's arm returns
    (early returns through `?` included: the arms run inside a closure) is spanned with the item
    that selected the variant, `.map_err(|e| e.with_span(__nested))` — `with_span` only sets a span
    where none is present, so more specific spans stay.  The errors for no item, several items and
    a literal carry no span: there is no single item at fault. -/
def enumFromList (e : SEnum ν) (outer : List NestedMeta) : Outcome ν :=
  match outer with
  | [] => .err (Err.new (.tooFewItems 1))
  | [.item nested] =>
      let name := nested.path'.toStr
      (match e.arm name with
       | some v => (dataArm v nested).mapErr (·.withSpan nested.span)
       | none => .err ((e.unknownErr name).withSpan nested.span))
  | [.lit _] => .err (Err.unsupportedFormat "literal")
  | _ => .err (Err.new (.tooManyItems 1))

/-- the emitted `from_string` -/
def enumFromString (e : SEnum ν) (lit : String) : Outcome ν :=
  match e.arm lit with
  | some v =>
      (match v.kind with
       | .unit val => .ok val
       | .newtype _ fromNone wrap => (match fromNone with
           | some x => .ok (wrap x)
           | none => .err (Err.unsupportedFormat "literal"))
       | .struct _ => .err (Err.unsupportedFormat "literal"))
  | none => .err (Err.unknownValue lit)

def enumHooks (e : SEnum ν) : Hooks ν :=
  { fromList? := some (enumFromList e),
    fromString? := some (enumFromString e),
    fromWord? := e.fromWord,
    fromNone := e.fromNone }

/-- hooks of a derived *struct* `FromMeta` receiver -/
inductive StructForm (ν : Type) where
  | unit (v : ν)
  | newtype (inner : Hooks ν) (wrap : ν → ν)
  | named (s : SStruct ν)

def structHooks (form : StructForm ν) (fromWord : Option (Outcome ν)) (fromNone : Option ν) : Hooks ν :=
  match form with
  | .unit v => { fromWord? := some (.ok v) }
  | .newtype inner wrap =>
      { fromMeta? := some (fun m => ((inner.fromMeta m).mapErr (·.withSpan m.span)).map wrap) }
  | .named s => { fromList? := some (fromList s), fromWord? := fromWord, fromNone := fromNone }

end Derive
