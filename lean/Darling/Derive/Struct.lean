import Darling.DeriveTypes
/-
  Run-time model of a derived *struct* receiver: the code emitted by
  core/src/codegen/{field.rs, variant_data.rs, trait_impl.rs, from_meta_impl.rs, error.rs,
  default_expr.rs}.  Parametric in the value type `ν` and in every piece of external behaviour:
  field converters, custom functions, defaults, the similarity measure.
-/

namespace Derive

/-- the locals a field declaration introduces: `(bool, Option<T>)`, or the `Vec<T>` of a multiple
    field together with the counter of the occurrences of its name -/
structure Slot (ν : Type) where
  seen : Bool := false
  val : Option ν := none
  many : List ν := []
  occ : Nat := 0

structure PState (ν : Type) where
  slot : String → Slot ν := fun _ => {}
  flat : List NestedMeta := []
  errs : List Err := []

variable {ν : Type}

instance : Inhabited (SField ν) := ⟨{ ident := "", name := "", conv := fun _ => .panic "", fromNone := none, fromList := fun _ => .panic "", dflt := none, skip := false, multiple := false, flatten := false }⟩
instance [Inhabited ν] : Inhabited (SStruct ν) := ⟨{ fields := [], allowUnknown := false, containerDefault := none, build := fun _ => default, mkList := fun _ => default, post := .ok, score := fun _ _ => 0, thr := 0 }⟩

def PState.set (st : PState ν) (ident : String) (s : Slot ν) : PState ν :=
  { st with slot := fun i => if i == ident then s else st.slot i }

def PState.push (st : PState ν) (e : Err) : PState ν := { st with errs := st.errs ++ [e] }

/-- one iteration of `FieldsGen::core_loop`; `.error` = a converter panicked -/
def stepItem (r : SStruct ν) (st : PState ν) (item : NestedMeta) : Except String (PState ν) :=
  match item with
  | .lit l => .ok (st.push ((Err.unsupportedFormat "literal").withSpan l.span))
  | .item inner =>
      let name := inner.path'.toStr
      match r.arm name with
      | some f =>
          let s := st.slot f.ident
          if f.multiple then
            let loc := f.name ++ "[" ++ toString s.occ ++ "]"
            match f.conv inner with
            | .ok v => .ok (st.set f.ident { s with many := s.many ++ [v], occ := s.occ + 1 })
            | .err e => .ok ((st.set f.ident { s with occ := s.occ + 1 }).push ((e.withSpan inner.span).at loc))
            | .panic m => .error m
          else if !s.seen then
            match f.conv inner with
            | .ok v => .ok (st.set f.ident { s with seen := true, val := some v })
            | .err e => .ok ((st.set f.ident { s with seen := true, val := none }).push ((e.withSpan inner.span).at f.name))
            | .panic m => .error m
          else .ok (st.push ((Err.new (.duplicateField f.name)).withSpan inner.span))
      | none =>
          if r.hasFlatten then .ok { st with flat := st.flat ++ [.item inner] }
          else if r.allowUnknown then .ok st
          else .ok (st.push ((r.unknownErr name).withSpan inner.span))

def coreLoop (r : SStruct ν) : PState ν → List NestedMeta → Except String (PState ν)
  | st, [] => .ok st
  | st, it :: rest => match stepItem r st it with
      | .ok st' => coreLoop r st' rest
      | .error m => .error m

/-- `FlattenInitializer`: hand the buffered items to the first flatten field -/
def flattenInit (r : SStruct ν) (st : PState ν) : Except String (PState ν) :=
  match r.fields.find? (·.flatten) with
  | none => .ok st
  | some ff =>
      let parents := r.names
      let res := ff.fromList st.flat
      let res := if parents.isEmpty then res else
        res.mapErr (Suggest.addSiblingAlts r.thr (fun n => parents.map (fun a => (a, r.score n a))))
      match res with
      | .ok v => .ok (st.set ff.ident { seen := true, val := some v })
      | .err e => .ok ((st.set ff.ident { seen := true, val := none }).push e)
      | .panic m => .error m

/-- `CheckMissing` for every field, in declaration order -/
def checkMissing : List (SField ν) → PState ν → PState ν
  | [], st => st
  | f :: rest, st =>
      let st :=
        if !f.multiple && f.dflt.isNone then
          let s := st.slot f.ident
          if !s.seen then
            match f.fromNone with
            | some v => st.set f.ident { s with val := some v }
            | none => st.push (Err.new (.missingField f.name))
          else st
        else st
      checkMissing rest st

/-- the value of a field's default expression -/
def defaultValue (r : SStruct ν) (f : SField ν) (d : DefaultSrc ν) : Outcome ν :=
  match d with
  | .value v => .ok v
  | .inherit => match r.containerDefault with
      | some cd => .ok (cd f.ident)
      | none => .panic "`__default` is not declared"

/-- `Initializer` -/
def initField (r : SStruct ν) (st : PState ν) (f : SField ν) : Outcome ν :=
  let s := st.slot f.ident
  if f.multiple then
    match f.dflt with
    | some d => if !s.many.isEmpty then .ok (r.mkList s.many) else defaultValue r f d
    | none => .ok (r.mkList s.many)
  else match f.dflt with
    | some d => (match s.val with
        | some v => .ok v
        | none => defaultValue r f d)
    | none => (match s.val with
        | some v => .ok v
        | none => .panic "Uninitialized fields without defaults were already checked")

def initFields (r : SStruct ν) (st : PState ν) : List (SField ν) → Outcome (List (String × ν))
  | [] => .ok []
  | f :: rest => match initField r st f with
      | .ok v => (initFields r st rest).map ((f.ident, v) :: ·)
      | .err e => .err e
      | .panic m => .panic m

/-- everything after the attribute walk: `require_fields`, `check_errors`, defaults, `Ok(Self{..})`,
    post-transform.  `flattenHere` distinguishes `TraitImpl::require_fields` (with the flatten
    initialiser) from `FieldsGen::require_fields` (enum struct variants). `loc` = the variant name
    for `ErrorCheck::with_location`. -/
def finishStruct (r : SStruct ν) (flattenHere : Bool) (loc : Option String) (st : PState ν) : Outcome ν :=
  let st1 : Except String (PState ν) := if flattenHere then flattenInit r st else .ok st
  match st1 with
  | .error m => .panic m
  | .ok st =>
      let st := checkMissing r.fields st
      match st.errs with
      | _ :: _ =>
          let e : Outcome ν := Err.bundleErr st.errs
          (match loc with
           | some l => e.mapErr (·.at l)
           | none => e)
      | [] =>
          match initFields r st r.fields with
          | .ok kvs => r.post (r.build kvs)
          | .err e => .err e
          | .panic m => .panic m

/-- the emitted `from_list` of a named struct deriving `FromMeta` -/
def fromList (r : SStruct ν) (items : List NestedMeta) : Outcome ν :=
  match coreLoop r {} items with
  | .error m => .panic m
  | .ok st => finishStruct r true none st

end Derive
