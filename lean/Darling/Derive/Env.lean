import Darling.Derive.Enum
import Darling.Derive.Outer
import Darling.Derive.Magic
import Darling.Options
/-
  Assembly of the semantic receivers of a corpus: resolves each declaration with the derive-time
  model (`Options.derive`) and attaches behaviour (field converters through `hooksOf`, the library
  of custom functions of the harness, defaults) to obtain the `SStruct` / `SEnum` / `SOuter` values
  the run-time model is executed on.  Everything is total: receivers refer to each other by name,
  and the recursion through the corpus is indexed by a fuel (the nesting depth; the driver uses the
  size of the corpus, which bounds it).
-/
open Options Derive

namespace Env

structure T where
  decls : List (String × Trait × DeclD × DeclSpans)
  oracle : Oracle
  thr : Nat

/-- `Default::default()` of the field types the corpus uses -/
def defaultOf (o : Oracle) : Ty → Val
  | .unit => .unit
  | .bool => .bool false
  | .char => .char (Char.ofNat 0)
  | .string | .pathBuf => .str ""
  | .int _ => .int 0
  | .float _ => .float 0
  | .option _ => .none
  | .vec _ => .list []
  | .map _ _ _ => .map []
  | .flag => .flag none
  | .override _ => .inherit
  | .spanned t => .spanned (defaultOf o t) none
  | .result t => .okv (defaultOf o t)
  | .ptr t => .ptr (defaultOf o t)
  | .recv n => (o.val? ("cdefault:" ++ n)).getD .unit
  | .pathList => .list []
  | _ => .unit

def upperAscii (s : String) : String := String.ofList (s.toList.map RenameRule.upperAscii)

/-- the harness's library of `with` functions (harness/src/fns.rs), by printed tokens -/
def customWith (o : Oracle) (rh : String → Hooks Val) (w : String) : Option (Meta → Outcome Val) :=
  let u8 : Hooks Val := hooksOf o rh (.int ⟨"u8", false, 8, false⟩)
  let str : Hooks Val := hooksOf o rh .string
  let withUpper := fun (m : Meta) => (str.fromMeta m).map (fun v => match v with
    | .str s => .str (upperAscii s)
    | v => v)
  match w with
  | "fns :: with_u8_plus1" => some (fun m => (u8.fromMeta m).map (fun v => match v with
      | .int i => .int (if i ≥ 255 then 255 else i + 1)
      | v => v))
  | "fns :: with_upper" => some withUpper
  | "| m | fns :: with_upper (m)" => some withUpper
  | "fns :: with_fail" => some (fun _ => .err (Err.custom "with_fail"))
  | _ => none

/-- `map` / `and_then` functions: (source type, function) -/
def customPost (p : Post) : Option (Ty × (Val → Outcome Val)) :=
  match p.function with
  | "fns :: map_inc" => some (.int ⟨"u8", false, 8, false⟩, fun v => match v with
      | .int i => .ok (.int (if i ≥ 255 then 255 else i + 1))
      | v => .ok v)
  | "fns :: map_len" => some (.string, fun v => match v with
      | .str s => .ok (.int s.utf8ByteSize)
      | v => .ok v)
  | "fns :: nonzero" => some (.int ⟨"u8", false, 8, false⟩, fun v => match v with
      | .int 0 => .err (Err.custom "zero not allowed")
      | v => .ok v)
  | "fns :: keep" => none
  | _ => none

def elemTy : Ty → Ty
  | .vec t => t
  | t => t

/-- a field of a derived receiver, with the hooks `rh` of the other receivers of the corpus -/
def semField (env : T) (rh : String → Hooks Val) (f : RField) : SField Val :=
  let o := env.oracle
  let post? := f.post.bind customPost
  let srcTy : Ty := match post? with
    | some (t, _) => t
    | none => elemTy (if f.multiple then f.ty else f.ty)
  let srcTy := if f.multiple then elemTy srcTy else srcTy
  let base : Meta → Outcome Val := match f.with_.bind (customWith o rh) with
    | some w => w
    | none => (hooksOf o rh srcTy).fromMeta
  let conv : Meta → Outcome Val := match f.post, post? with
    | some p, some (_, g) =>
        if p.transformer == "map" then fun m => (base m).bind g
        else fun m => (base m).bind g
    | _, _ => base
  let tyHooks := hooksOf o rh f.ty
  { ident := f.ident, name := f.name, conv,
    fromNone := tyHooks.fromNone,
    fromList := tyHooks.fromList,
    dflt := f.dflt.map (fun d => match d with
      | .inherit => DefaultSrc.inherit
      | .explicit p => .value ((o.val? ("fn:" ++ p)).getD .unit)
      | .trait_ _ => .value (defaultOf o f.ty)),
    skip := f.skip, multiple := f.multiple, flatten := f.flatten }

def semStruct (env : T) (rh : String → Hooks Val) (core : RCore) (fields : List RField) (build : List (String × Val) → Val) : SStruct Val :=
  let o := env.oracle
  { fields := fields.map (semField env rh),
    allowUnknown := core.allowUnknown,
    containerDefault := core.dflt.map (fun _ =>
      match o.val? ("cdefault:" ++ core.ident) with
      | some (.record _ kvs) => fun id => ((kvs.find? (·.1 == id)).map (·.2)).getD .unit
      | _ => fun _ => .unit),
    build := build,
    mkList := .list,
    post := match core.post.bind customPost with
      | some (_, g) => g
      | none => .ok,
    score := o.score,
    thr := env.thr }

def fromMetaHooks (env : T) (rh : String → Hooks Val) (r : RFromMeta) : Hooks Val :=
  let o := env.oracle
  let core := r.base
  let fromWord : Option (Outcome Val) := r.fromWord.map (fun w => match w with
    | .inl c => (match o.val? ("fn:" ++ c) with
        | some v => .ok v
        | none => .err (Err.custom ("unknown from_word callable " ++ c)))
    | .inr variant => .ok (.variant core.ident variant .unit))
  let fromNone : Option Val := r.fromNone.bind (fun c => o.val? ("fn:" ++ c))
  match core.data with
  | .struct .unit _ => structHooks (.unit (.record core.ident [])) none none
  | .struct .tuple [f] =>
      structHooks (.newtype (hooksOf o rh f.ty) (fun v => .record core.ident [("0", v)])) none none
  | .struct _ fields =>
      structHooks (.named (semStruct env rh core fields (fun kvs => .record core.ident kvs))) fromWord fromNone
  | .enum variants =>
      enumHooks {
        variants := variants.map (fun v =>
          { name := v.name, skip := v.skip,
            kind := match v.style, v.fields with
              | .unit, _ => .unit (.variant core.ident v.ident .unit)
              | .tuple, [f] =>
                  let h := hooksOf o rh f.ty
                  .newtype h.fromMeta h.fromNone (fun x => .variant core.ident v.ident x)
              | _, fs =>
                  .struct (semStruct env rh { core with allowUnknown := v.allowUnknown, dflt := core.dflt, post := none } fs
                    (fun kvs => .variant core.ident v.ident (.record v.ident kvs))) }),
        score := o.score, thr := env.thr, fromWord := fromWord, fromNone := fromNone }

/-- hooks of the derived receiver `name` of the corpus, nested receivers resolved to depth `fuel` -/
def recvHooksF : Nat → T → String → Hooks Val
  | 0, _, _ => {}
  | fuel + 1, env, name =>
      match env.decls.find? (·.1 == name) with
      | none => {}
      | some (_, t, d, sp) =>
          match derive t env.oracle (fun _ => none) sp d with
          | .ok (.fromMeta r) => fromMetaHooks env (recvHooksF fuel env) r
          | _ => {}

/-- the corpus size bounds the nesting depth of an acyclic corpus -/
def recvHooks (env : T) (name : String) : Hooks Val := recvHooksF (env.decls.length + 1) env name

end Env

/-! ## element-level receivers -/
namespace Env
open Derive Options

/-- split the generic arguments of a printed type (`Name<A, B<C, D>>` ↦ `["A", "B<C,D>"]`): commas
    at bracket depth 1 separate, deeper ones belong to an argument -/
def typeArgs (tyToks : String) : List String :=
  let cs := tyToks.toList.filter (· != ' ')
  -- drop up to and including the first '<', and the final '>'
  let inner := ((cs.dropWhile (· != '<')).drop 1).dropLast
  let rec go (rest : List Char) (depth : Nat) (cur : List Char) (acc : List String) : List String :=
    match rest with
    | [] => if cur.isEmpty && acc.isEmpty then [] else acc ++ [String.ofList cur.reverse]
    | c :: r =>
        if c == '<' then go r (depth + 1) (c :: cur) acc
        else if c == '>' then go r (depth - 1) (c :: cur) acc
        else if c == ',' && depth == 0 then go r depth [] (acc ++ [String.ofList cur.reverse])
        else go r depth (c :: cur) acc
  go inner 0 [] []

/-- `Wrapper<…>` ↦ the text between the brackets -/
def unwrapTy (pre : String) (t : String) : Option String :=
  if t.startsWith pre && t.endsWith ">" then some (String.ofList ((t.toList.drop pre.length).dropLast)) else none

def sortKvs (kvs : List (String × Val)) : List (String × Val) :=
  kvs.foldr (fun kv acc =>
    let rec ins : List (String × Val) → List (String × Val)
      | [] => [kv]
      | x :: xs => if kv.1 < x.1 then kv :: x :: xs else x :: ins xs
    ins acc) []

/-- converter for one entry of a body (`FromField` / `FromVariant` / `FromTypeParam` of the entry
    type, read off its printed name); `run` resolves corpus receivers; the fuel bounds wrapper nesting -/
def entryConvF (run : String → Elem → Outcome Val) : Nat → String → Elem → Outcome Val
  | 0, n, _ => .err (Err.custom ("entry type nested too deeply in the model: " ++ n))
  | fuel + 1, tyName, el =>
      match tyName, el with
      | "()", _ => .ok .unit
      | "syn::Type", .field f => .ok (.toks f.tyToks)
      | "syn::Visibility", .field f => .ok (.toks f.vis)
      | "syn::Ident", .variant v => .ok (.toks v.ident)
      | "syn::Ident", .typeParam t => .ok (.toks t.ident)
      | "syn::TypeParam", .typeParam t => .ok (.toks t.toks)
      | "syn::Field", .field f => .ok (.toks f.toks)
      | "syn::Variant", .variant v => .ok (.toks v.toks)
      | "Vec<syn::Attribute>", el => .ok (.list (el.attrsOf.map (fun a => .toks a.toks)))
      | n, el =>
          match unwrapTy "SpannedValue<" n, unwrapTy "WithOriginal<" n with
          | some inner, _ =>
              -- `spanned!`: the inner conversion, its error spanned with the element, the element's span kept
              (match el.span? with
               | some sp => ((entryConvF run fuel inner el).mapErr (·.withSpan sp)).map (fun v => .spanned v (some sp))
               | none => .err (Err.custom "SpannedValue entry without a span in the model"))
          | none, some args =>
              -- `with_original!`: the inner conversion plus a clone of the element
              (match typeArgs ("W<" ++ args ++ ">") with
               | [inner, _] => (entryConvF run fuel inner el).map (fun v => .withOrig v el.toks)
               | _ => .err (Err.custom ("cannot read type arguments of " ++ n)))
          | none, none => run n el

/-- one element-level receiver on one element; `run` resolves other element-level receivers by
    name (newtype proxies), `conv` converts body entries / type parameters by type name -/
def runOuter (env : T) (run : String → Elem → Outcome Val) (conv : String → Elem → Outcome Val) (r : ROuter) (el : Elem) : Outcome Val :=
  let o := env.oracle
  -- newtype receivers proxy to the inner type's own element-level impl
  match r.base.data with
  | .struct .tuple [f] =>
      -- the receiver's own `supports(..)` is enforced before the inner type is asked
      -- (`FromDeriveInputImpl::to_tokens`, newtype arm: `__validate_body(&input.data)?`)
      let validate : Outcome Unit := match r.trait_, el, r.supports with
        | .fromDeriveInput, .deriveInput d, some diss => diss.validateBody d.body.shape
        | _, _, _ => .ok ()
      (match validate with
       | .err e => .err e
       | .panic m => .panic m
       | .ok () =>
          match f.ty with
          | .recv inner => (run inner el).map (fun v => .record r.base.ident [("0", v)])
          | _ => .err (Err.custom "unsupported newtype inner"))
  | .struct _ fields =>
      let st := semStruct env (recvHooks env) r.base fields (fun kvs => .record r.base.ident (sortKvs kvs))
      let attrsField : Option (List Attr → Outcome Val) := r.attrsField.map (fun fw =>
        match fw.with_ with
        | none => fun as => .ok (.list (as.map (fun a => .toks a.toks)))
        | some "fns :: attrs_count" => fun as => .ok (.int as.length)
        | some "fns :: attrs_fail" => fun _ => .err (Err.custom "attrs_fail")
        | some _ => fun _ => .err (Err.custom "unknown attrs function"))
      let cdflt : Option (String → Val) :=
        if r.fromIdent then
          (match el with
           | .deriveInput d => (match o.val? ("fromident:" ++ r.base.ident ++ ":" ++ d.ident) with
               | some (.record _ kvs) => some (fun id => ((kvs.find? (·.1 == id)).map (·.2)).getD .unit)
               | _ => some (fun _ => .unit))
           | _ => some (fun _ => .unit))
        else st.containerDefault
      let st2 : SStruct Val := { st with containerDefault := cdflt }
      let so : SOuter Val := ⟨st2, r.attrNames, r.forward, attrsField⟩
      match extract so el.attrsOf with
      | .error m => .panic m
      | .ok (pst, attrsVal) =>
          let validate : Outcome Unit := match r.trait_, el with
            | .fromDeriveInput, .deriveInput d => (match r.supports with
                | some diss => diss.validateBody d.body.shape
                | none => .ok ())
            | .fromVariant, .variant v => (match r.vsupports with
                | some ds => ds.toShapeSet.check (v.style.shape v.fields.length)
                | none => .ok ())
            | _, _ => .ok ()
          let has := fun (m : String) => r.magic.contains m
          let early : List (String × Val) := earlyParts has el
          let dataTy : String := match r.dataField with
            | some fw => (match (match env.decls.find? (·.1 == r.base.ident) with
                | some (_, _, dd, _) => (match dd.body with
                    | .struct _ fs => (fs.find? (fun f => f.ident == some fw.ident)).map (·.tyToks)
                    | _ => none)
                | none => none) with
              | some t => t
              | none => "")
            | none => ""
          let memberTy : String → String := fun m => match env.decls.find? (·.1 == r.base.ident) with
            | some (_, _, dd, _) => (match dd.body with
                | .struct _ fs => ((fs.find? (fun f => f.ident == some m)).map (·.tyToks)).getD ""
                | _ => "")
            | none => ""
          let fieldsTy : String := match env.decls.find? (·.1 == r.base.ident) with
            | some (_, _, dd, _) => (match dd.body with
                | .struct _ fs => ((fs.find? (fun f => f.ident == some "fields")).map (·.tyToks)).getD ""
                | _ => "")
            | none => ""
          let late : List (String × Outcome Val) := match el with
            | .deriveInput d =>
                (if has "generics" then
                   let gTy := String.ofList ((memberTy "generics").toList.filter (· != ' '))
                   let stripWrap := fun (pre : String) (t : String) =>
                     if t.startsWith pre && t.endsWith ">" then some (String.ofList ((t.toList.drop pre.length).dropLast)) else none
                   let base : String → Outcome Val := fun gTy =>
                     match stripWrap "ast::Generics<" gTy with
                     | none => .ok (genericsVal d)                       -- `syn::Generics`: a clone
                     | some pTy =>
                         -- `ast::Generics<P>`
                         (match stripWrap "ast::GenericParam<" pTy with
                          | none => genericsMirror none d.generics
                          | some tTy => genericsMirror (some (fun t => conv tTy (.typeParam t))) d.generics)
                   let v : Outcome Val :=
                     match stripWrap "darling::Result<" gTy, stripWrap "WithOriginal<" gTy with
                     | some inner, _ =>
                         -- `impl<T: FromGenerics> FromGenerics for Result<T>`: never fails, holds the outcome
                         (match base inner with
                          | .ok v => .ok (.okv v)
                          | .err e => .ok (.errv e)
                          | .panic m => .panic m)
                     | none, some args =>
                         (match typeArgs ("W<" ++ args ++ ">") with
                          | [inner, _] => (base inner).map (fun v => .withOrig v d.generics.toks)
                          | _ => .err (Err.custom "cannot read type arguments"))
                     | none, none => base gTy
                   [("generics", v)]
                 else []) ++
                (match r.dataField with
                 | some fw =>
                     let v : Outcome Val := match fw.with_ with
                       | some "fns :: data_kind" => .ok (.str (match d.body with
                           | .struct _ _ => "struct" | .enum _ => "enum" | .union => "union"))
                       | some _ => .err (Err.custom "unknown data function")
                       | none =>
                           (match typeArgs dataTy with
                            | [vTy, fTy] =>
                                dataTryFrom (fun f => conv fTy (.field f)) (fun v => conv vTy (.variant v))
                                  (fun style vs => .variant "Data" "Struct" (.record (styleName style) [("entries", .list vs)]))
                                  (fun vs => .variant "Data" "Enum" (.list vs)) d.body
                            | _ => .err (Err.custom ("cannot read type arguments of " ++ dataTy)))
                     [(fw.ident, v)]
                 | none => [])
            | .variant v =>
                (if has "fields" then
                   [("fields", match typeArgs fieldsTy with
                      | [fTy] => (match fieldsTryFrom (fun f => conv fTy (.field f)) v.fields [] [] with
                          | .error m => .panic m
                          | .ok (vs, []) => .ok (.record (styleName v.style) [("entries", .list vs)])
                          | .ok (_, errs) => Err.bundleErr errs)
                      | _ => .err (Err.custom ("cannot read type arguments of " ++ fieldsTy)))]
                 else [])
            | _ => []
          finishOuter so pst attrsVal validate late early (fun kvs => .record r.base.ident (sortKvs kvs))
  | .enum _ => .err (Err.custom "element-level receivers are structs")

/-- run the element-level receiver `name` on an input element, other element-level receivers
    resolved to depth `fuel` -/
def outerRunF : Nat → T → String → Elem → Outcome Val
  | 0, _, name, _ => .err (Err.custom ("receivers nested too deeply in the model: " ++ name))
  | fuel + 1, env, name, el =>
      match env.decls.find? (·.1 == name) with
      | none => .err (Err.custom ("unknown receiver " ++ name))
      | some (_, t, d, sp) =>
          let sim := fun (n : String) => Suggest.didYouMean env.thr [("with", env.oracle.score n "with")]
          match derive t env.oracle sim sp d with
          | .ok (.outer r) => runOuter env (outerRunF fuel env) (entryConvF (outerRunF fuel env) 8) r el
          | .ok (.fromMeta _) => .err (Err.custom "not an element-level receiver")
          | .err e => .err e
          | .panic m => .panic m

def outerRun (env : T) (name : String) (el : Elem) : Outcome Val := outerRunF (env.decls.length + 1) env name el


end Env
