import Darling.Decl
import Darling.Val
/-
  The input elements of element-level receivers and the pass-through ("magic") members of the
  generated struct literal: core/src/codegen/{from_derive_impl.rs, from_field.rs,
  from_variant_impl.rs, from_type_param.rs} (`ident: input.ident.clone()`, …), and
  `impl ToTokens for ast::Fields<T>` (core/src/ast/data.rs).
-/
namespace Derive

/-- the input element handed to an element-level receiver -/
inductive Elem where
  | deriveInput (d : DeclD)
  | field (f : FieldD)
  | variant (v : VariantD)
  | typeParam (t : TypeParamD)
  | attrs (as : List Attr)
  deriving Inhabited

def Elem.attrsOf : Elem → List Attr
  | .deriveInput d => d.attrs
  | .field f => f.attrs
  | .variant v => v.attrs
  | .typeParam t => t.attrs
  | .attrs as => as

def Elem.toks : Elem → String
  | .field f => f.toks
  | .variant v => v.toks
  | .typeParam t => t.toks
  | _ => ""

def Elem.span? : Elem → Option Span
  | .field f => some f.span
  | .variant v => some v.span
  | _ => none

def optToks : Option String → Val
  | some s => .some (.toks s)
  | none => .none

def styleName : Style → String
  | .named => "named" | .tuple => "tuple" | .unit => "unit"

/-- the clone-initialised members, in the order of the generated literal; `has m` = the receiver
    declares the magic field `m` -/
def earlyParts (has : String → Bool) : Elem → List (String × Val)
  | .deriveInput d =>
      (if has "ident" then [("ident", .toks d.ident)] else []) ++
      (if has "vis" then [("vis", .toks d.vis)] else [])
  | .field f =>
      (if has "ident" then [("ident", optToks f.ident)] else []) ++
      (if has "ty" then [("ty", .toks f.tyToks)] else []) ++
      (if has "vis" then [("vis", .toks f.vis)] else [])
  | .variant v =>
      (if has "ident" then [("ident", .toks v.ident)] else []) ++
      (if has "discriminant" then [("discriminant", optToks v.discriminant)] else [])
  | .typeParam t =>
      (if has "ident" then [("ident", .toks t.ident)] else []) ++
      (if has "bounds" then [("bounds", .list (t.bounds.map .toks))] else []) ++
      (if has "default" then [("default", optToks t.default)] else [])
  | .attrs _ => []

/-- `generics: FromGenerics::from_generics(&input.generics)?` for `syn::Generics`: a clone; observed
    as the printed parameter list and the printed where-clause -/
def genericsVal (d : DeclD) : Val := .toks (d.generics.toks ++ " | " ++ d.generics.whereToks)

/-- `FromGenericParam` for `syn::GenericParam` (`wrap = none`: a clone) and for
    `ast::GenericParam<T>` (`wrap = some conv`: type parameters through `T::from_type_param`) -/
def gparamMirror (wrap : Option (TypeParamD → Outcome Val)) : GParamD → Outcome Val
  | .type t => (match wrap with
      | none => .ok (.toks t.toks)
      | some conv => (conv t).map (fun v => .variant "GenericParam" "Type" v))
  | .lifetime s => (match wrap with
      | none => .ok (.toks s)
      | some _ => .ok (.variant "GenericParam" "Lifetime" (.toks s)))
  | .const s => (match wrap with
      | none => .ok (.toks s)
      | some _ => .ok (.variant "GenericParam" "Const" (.toks s)))

/-- `collect::<Result<Vec<_>>>()`: the values in order, or the first failure -/
def collectFirst {β γ : Type} (f : β → Outcome γ) : List β → Outcome (List γ)
  | [] => .ok []
  | x :: xs => match f x with
      | .ok v => (match collectFirst f xs with
          | .ok vs => .ok (v :: vs)
          | .err e => .err e
          | .panic m => .panic m)
      | .err e => .err e
      | .panic m => .panic m

def whereVal (g : GenericsD) : Val := if g.hasWhere then .some (.toks g.whereToks) else .none

/-- `impl FromGenerics for ast::Generics<P>`: every parameter converted in order (the first
    failure is returned), the where-clause cloned -/
def genericsMirror (wrap : Option (TypeParamD → Outcome Val)) (g : GenericsD) : Outcome Val :=
  match collectFirst (gparamMirror wrap) g.params with
  | .ok ps => .ok (.record "Generics" [("params", .list ps), ("where_clause", whereVal g)])
  | .err e => .err e
  | .panic m => .panic m

/-- `impl ToTokens for Fields<T>`, observed with white space removed: named fields in braces with a
    trailing comma when non-empty, tuple fields in parentheses, nothing for a unit body -/
def printFields (style : Style) (fields : List String) : String :=
  match style with
  | .named => "{" ++ ",".intercalate fields ++ (if fields.isEmpty then "" else ",") ++ "}"
  | .tuple => "(" ++ ",".intercalate fields ++ ")"
  | .unit => ""

end Derive
