import Darling.Sexp
import Darling.Error
import Darling.Accum
import Darling.Suggest
import Darling.Codec
