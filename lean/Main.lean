import Darling.Driver.C04
import Darling.Driver.C05
import Darling.Driver.FM
import Darling.Driver.C18
import Darling.Driver.C19
import Darling.Driver.Recv
import Darling.Driver.C15a
import Darling.Generated.Facts
/-
  `darling_model`: reads `<prop> <case-id> <sexp>` lines on stdin, answers `<case-id> <answer>`.
  Global parameters (regenerated fact tables) arrive on `param` lines.
-/

def splitHead (s : String) : String × String :=
  let cs := s.toList
  let h := cs.takeWhile (· ≠ ' ')
  let r := (cs.dropWhile (· ≠ ' ')).drop 1
  (String.ofList h, String.ofList r)

structure Params where
  thr : Nat := Generated.threshold   -- regenerated from the source; a `param thr` line overrides
  corpus : Driver.Recv.Corpus := []  -- receiver declarations (`decl` lines)
  global : Oracle := {}              -- oracle rows valid for every case (`oracle` lines)
  hypOk : Nat := 0                   -- cases on which the hypotheses of the C03 span theorems hold
  hypBad : Nat := 0                  -- … and on which they do not (first such case id)
  hypFirst : String := ""

def answer (p : Params) (prop : String) (c : Sexp) : String :=
  match prop with
  | "c04" => Driver.C04.answer p.thr c
  | "c05" => Driver.C05.answer c
  | "fm" => Driver.FM.answer c
  | "c18" => Driver.C18.answer c
  | "c19" => Driver.C19.answer c
  | "c15a" => Driver.C15a.answer c
  | "recv" => Driver.Recv.answer p.corpus p.global p.thr c
  | _ => "bad-prop"

partial def loop (h : IO.FS.Stream) (out : IO.FS.Stream) (p : Params) : IO Unit := do
  let line ← h.getLine
  if line.isEmpty then
    IO.eprintln s!"hyp spanwf ok={p.hypOk} bad={p.hypBad} first={p.hypFirst}"
    return ()
  let line := String.ofList (line.toList.reverse.dropWhile (fun c => c = '\n' || c = '\r')).reverse
  let (prop, rest) := splitHead line
  if prop = "param" then
    let (k, v) := splitHead rest
    match k, v.toNat? with
    | "thr", some n => loop h out { p with thr := n }
    | _, _ => loop h out p
  else if prop = "oracle" then
    match Sexp.parse ("(oracle " ++ rest ++ ")") with
    | some row =>
        (match Driver.FM.oracleOf? row with
         | some o => loop h out { p with global := p.global.merge o }
         | none => loop h out p)
    | none => loop h out p
  else if prop = "decl" then
    let (name, r2) := splitHead rest
    let (trait, payload) := splitHead r2
    match Sexp.parse payload with
    | some s => loop h out { p with corpus := Driver.Recv.addDecl p.corpus name trait s }
    | none => loop h out p
  else
    let (id, payload) := splitHead rest
    let parsed := Sexp.parse payload
    let ans := match parsed with
      | some c => answer p prop c
      | none => "bad-sexp"
    out.putStrLn (id ++ " " ++ ans)
    -- monitor of the hypotheses of the span theorems (C03): reported on stderr at the end
    let hv : Option Bool := match parsed with
      | some c => (match prop with
          | "fm" => Driver.FM.hyp c
          | "recv" => Driver.Recv.hyp p.global c
          | _ => none)
      | none => none
    let p := match hv with
      | some true => { p with hypOk := p.hypOk + 1 }
      | some false => { p with hypBad := p.hypBad + 1, hypFirst := if p.hypFirst.isEmpty then id else p.hypFirst }
      | none => p
    loop h out p

def main : IO Unit := do
  let stdin ← IO.getStdin
  let stdout ← IO.getStdout
  loop stdin stdout {}
