"""Per-property configuration of /verif/check."""
import re
import sexp

TRUSTED_BASE = [
    "Lean 4.33 kernel (thorough tier: re-checked by leanchecker)",
    "axioms allowed: propext, Classical.choice, Quot.sound (audited per theorem with #print axioms on every run); no sorry/admit/native_decide/bv_decide/own axioms (grep on every run)",
    "hand-written Lean model of the code (lean/Darling/*.lean): tied to /repo by the differential correspondence run of this check and by fact tables regenerated from /repo's source",
    "the Rust harness (generator, canonicaliser) and tools/extract_facts.py",
    "rustc/cargo executing the implementation side; syn/proc-macro2/strsim/ident_case/std as parameters of the model",
]


UNSPANNED_OK = ("Missing field", "Unsupported shape", "Unions are not supported", "attrs_fail")


def c03_judge_outer(c, a):
    """element-level receivers: a spanned leaf lies inside one of the element's attributes (or, for
    errors spanned by a SpannedValue<..> body entry, inside that field / variant); only root
    absences, whole-element verdicts and errors of the user's `attrs` function are unspanned"""
    spans = []

    def walk(x):
        if isinstance(x, list):
            if x and x[0] in ("attr", "field", "variant"):
                # a field / variant of the body is itself an enclosing element: SpannedValue<..> entries
                # span an inner error with the whole field or variant
                nums = [y for y in x[1:] if isinstance(y, str) and y.isdigit()]
                if len(nums) >= 2:
                    spans.append((int(nums[-2]), int(nums[-1])))
            for y in x:
                walk(y)
    walk(c[2])
    try:
        flat = [x for x in a[1][1:] if isinstance(x, list) and x and x[0] == "flat"][0]
    except Exception:
        return None
    for r in flat[1:]:
        msg = r[1][1] if isinstance(r[1], tuple) else str(r[1])
        sp = r[2]
        if sp == "none":
            if not msg.startswith(UNSPANNED_OK):
                return "an error leaf about an attribute item carries no usable span: " + msg[:80]
            continue
        a0, b0 = int(sp[1]), int(sp[2])
        if not any(lo <= a0 <= b0 <= hi for lo, hi in spans):
            return "an error leaf's span (%d,%d) lies in none of the element's attributes: %s" % (a0, b0, msg[:80])
    return None


def c03_judge(case, ans):
    """C03 on the implementation's own answer: every error leaf of a conversion of one item carries
    a span lying inside that item (the harness converts through `from_meta(&item)`, so even root
    absences inherit the item's span)."""
    if not ans.startswith("(err"):
        return None
    try:
        c, a = sexp.parse(case), sexp.parse(ans)
    except Exception:
        return None
    if isinstance(c, list) and c and c[0] == "outer":
        return c03_judge_outer(c, a)
    if not (isinstance(c, list) and c and c[0] in ("recv", "fm") and len(c) >= 3):
        return None
    entry = c[2]
    if not (isinstance(entry, list) and entry and entry[0] == "meta"):
        return None
    m = entry[1]
    try:
        if m[0] == "mpath":
            lo, hi = int(m[1][5]), int(m[1][6])
        else:
            lo, hi = int(m[-2]), int(m[-1])
        flat = [x for x in a[1][1:] if isinstance(x, list) and x and x[0] == "flat"][0]
    except Exception:
        return None
    for r in flat[1:]:
        msg = r[1][1] if isinstance(r[1], tuple) else str(r[1])
        sp = r[2]
        if sp == "none":
            return "an error leaf about the item carries no usable span: " + msg[:80]
        a0, b0 = int(sp[1]), int(sp[2])
        if not (lo <= a0 <= b0 <= hi):
            return "an error leaf's span (%d,%d) lies outside the item (%d,%d): %s" % (a0, b0, lo, hi, msg[:80])
    return None


def c02_judge(case, ans):
    """witness cases of the recorded findings F25–F27 (the model mirrors the behaviour, so agreement
    proves nothing): the outer name of the input says what the text of C02 requires the answer to mention"""
    if '("wdup")' in case and "zzz_unknown" not in ans:
        return "the mistake inside the repeated item (unknown name zzz_unknown) is not reported: dropped because the repetition was found first"
    if '("wcount")' in case and "zzz_unknown" not in ans:
        return "the mistake inside the first item (unknown name zzz_unknown) is not reported: dropped because the wrong item count was found first"
    if '("windex")' in case and not ("[0]" in ans and "[1]" in ans):
        return "two rejected occurrences of a `multiple` field are not located at its occurrences [0] and [1]"
    return None


def no_spans(x):
    return sexp.drop_tags(x, {"sp", "span"})


CONFIG = {
    "C01": {
        "lean_modules": ["Darling.Props.C01", "Darling.Props.C02", "Darling.Props.C01Corpus", "Darling.Props.C01Spec"],
        "streams": [
            {"name": "c01", "n": {"quick": 8000, "thorough": 160000},
             "trivial": lambda case, ans: not ans.startswith("(ok")},
            # the five element-level traits: mistake-free elements
            {"name": "c16", "n": {"quick": 4000, "thorough": 80000},
             "trivial": lambda case, ans: not ans.startswith("(ok")},
        ],
        "rule": "c01: compiled corpus of 110 struct + 50 enum FromMeta receivers over the derive option space (rename, rename_all x5, default none/bare/fn at field and container level, skip in 3 spellings, multiple, flatten (nested receiver / map), with (path / closure), map, and_then, allow_unknown_fields, word; nested to depth 3), each declaration read back from the compiled source; inputs composed from per-field templates (any subset of optional fields, shuffled order, 0..3 occurrences of multiple fields, every accepted literal spelling, flatten payloads); c16: the 80 element-level receivers (FromDeriveInput / FromField / FromVariant / FromTypeParam / FromAttributes) on mistake-free elements with their items split over several attributes; non-trivial = the input is accepted (Ok) with a value; distinct by case text",
        "assumptions": ["field converters, custom functions and Default impls are parameters of the theorems; their values are shipped as oracle rows evaluated on the real functions", "WF: field identifiers distinct, converters return (no panic)"],
        "partial": "theorems are stated for the struct parser's item loop and literal (FromMeta structs; C08.walk_is_one_list reduces the element-level traits' attribute walk to the same loop; enums via C09's model); newtype / unit receivers proxy and are covered by the correspondence only",
    },
    "C02": {
        "lean_modules": ["Darling.Props.C02", "Darling.Props.C01Corpus", "Darling.Props.C02Spec"],
        "streams": [
            {"name": "c02", "n": {"quick": 12000, "thorough": 240000},
             "trivial": lambda case, ans: not ans.startswith("(err")},
            {"name": "c16m", "n": {"quick": 4000, "thorough": 80000},
             "trivial": lambda case, ans: not ans.startswith("(err")},
        ],
        "impl_judge": c02_judge,
        "rule": "same corpus; inputs are valid compositions with 1..4 injected mistakes (unknown name at edit distance 1..2 of a valid name, repeated item, bare literal, dropped required item, rejected value) plus whole-value samples with mistakes inside nested receivers, enum variants and map values; non-trivial = the input is rejected; distinct by case text",
        "assumptions": ["strsim scores are oracle rows", "WF as for C01"],
    },
    "C03": {
        "lean_modules": ["Darling.Props.C03", "Darling.Props.C03Recv", "Darling.Props.C03Universe", "Darling.Props.C03Recv2", "Darling.Props.C03Spec"],
        "streams": [
            # error-algebra part: the same histories as C04, with spans compared
            {"name": "c04", "n": {"quick": 20000, "thorough": 400000},
             "trivial": lambda case, ans: "(span " not in case},
            # spans of errors produced by built-in conversions on parsed source text
            {"name": "c14", "n": {"quick": 10000, "thorough": 200000}, "trivial": lambda case, ans: not ans.startswith("(err")},
            {"name": "c13", "n": {"quick": 40000, "thorough": 40000}, "trivial": lambda case, ans: not ans.startswith("(err")},
            # spans of every leaf reported by derived receivers (mistakes at several depths)
            {"name": "c02", "n": {"quick": 12000, "thorough": 240000}, "trivial": lambda case, ans: not ans.startswith("(err")},
            # list bodies that are not meta syntax at some depth
            {"name": "c07m", "n": {"quick": 8000, "thorough": 160000}, "trivial": lambda case, ans: not ans.startswith("(err")},
            # element-level receivers: mistakes and malformed attributes on derive inputs, fields, variants, type params
            {"name": "c16m", "n": {"quick": 4000, "thorough": 80000}, "trivial": lambda case, ans: not ans.startswith("(err")},
            {"name": "c07o", "n": {"quick": 4000, "thorough": 80000}, "trivial": lambda case, ans: not ans.startswith("(err")},
        ],
        "impl_judge": c03_judge,
        "rule": "error histories with with_span applied at random nodes (bundles and leaves) in random order; non-trivial = at least one with_span in the history; distinct by case text",
        "assumptions": ["spans are byte ranges of tokens parsed from source text (proc-macro2 span-locations)"],
        "partial": "error algebra proved in full; placement proved for the derived struct parser's item loop (`coreLoop_placed`: every recorded mistake is spanned inside the item at fault, given converters that honour the same contract); placement inside built-in conversions and maps is mirrored site by site and tied by the correspondence streams plus the per-leaf containment judge on the implementation's answers",
    },
    "C04": {
        "lean_modules": ["Darling.Props.C04", "Darling.Props.C04Spec"],
        "streams": [
            {"name": "c04", "n": {"quick": 20000, "thorough": 400000},
             "trivial": lambda case, ans: "(len 1)" in ans and "(len " not in ans.replace("(len 1)", "")},
        ],
        # C04 is about count / order / paths / rendering; spans are C03's subject
        "project": no_spans,
        "rule": "random histories of public-API calls (10 leaf kinds, at, with_span, multiple, flatten, clone, into_iter, add_sibling_alts) as stack programs of 1..28 ops; a case is non-trivial when some resulting error has len >= 2; distinct by case text",
        "assumptions": ["spans are opaque byte ranges; syn::Error conversion observed through syn::Error::into_iter"],
    },
    "C06": {
        "lean_modules": ["Darling.Props.C06", "Darling.Props.C06Derive"],
        "streams": [
            {"name": "c06", "n": {"quick": 5000, "thorough": 100000}, "trivial": lambda case, ans: False},
            {"name": "c10", "n": {"quick": 1000, "thorough": 1000}, "trivial": lambda case, ans: False},
        ],
        # a derive that panics, returns nothing, or mixes an impl with diagnostics violates C06 by itself
        "impl_judge": lambda case, ans: ("derive did not return exactly one impl block or only diagnostics: " + ans[:60]) if not (ans == "(impl)" or ans.startswith("(errors (s")) else None,
        "rule": "c06: random declarations x 6 derives: every data shape (unit / newtype / n-tuple / named structs, enums with 0..4 mixed variants, unions), generics, container / variant / field options in any order and attribute split with ~20% unknown, malformed or conflicting options, malformed attribute bodies (#[darling], #[darling = x], #[darling(\"lit\")], missing commas, brace / bracket delimiters, stray punctuation), magic field names, identifiers fragile under ident_case; c10: the exhaustive pair stream of C10; every answer is also judged directly: exactly one impl of the requested trait, or one or more compile_error! rows — anything else (panic, nothing, both) is a violation; distinct by case text",
        "assumptions": ["syn's verdict on string literals inside options and strsim scores are oracle rows", "token content of malformed attributes is covered as far as the chaos grammar's forms"],
        "partial": "token content of attribute bodies beyond the chaos grammar is not enumerated",
    },
    "C10": {
        "lean_modules": ["Darling.Props.C10", "Darling.Props.C10Spec", "Darling.Props.C10Spec2"],
        "streams": [
            {"name": "c10", "n": {"quick": 1000, "thorough": 200000}, "trivial": lambda case, ans: False,
             # the same container options in another order / attribute split: accepted by all or by none
             "group_judge": (lambda cid: (re.match(r"o-(\w+)-\d+$", cid) or [None, None])[1],
                             lambda ans: "impl" if ans == "(impl)" else "rejected",
                             lambda case: False)},
            {"name": "c06", "n": {"quick": 3000, "thorough": 50000}, "trivial": lambda case, ans: False},
        ],
        "rule": "c10: every unordered pair of the 21 container option spellings in both orders and both attribute splits on three bodies x 6 derives (each compared with the model; the four members of a group must be accepted alike — group judge on the implementation's answers); exhaustive — every single field option, every ordered pair of the 12 field option spellings in both attribute splits (thorough: every ordered triple in all 4 splits) x 6 derives, plus 33 hand-picked declarations for the body rules (two / three flatten fields, word rules, from_word rules, attrs without forward_attrs, FromAttributes without attributes, shape words incl. repeated prefixes and multi-segment words, unions, empty enums, n-tuple structs and variants, forwarded-field options); c06: the random chaos stream; compared: impl vs diagnostics, every message and span; distinct by case text",
        "assumptions": ["syn's verdict on string literals inside options and strsim scores are oracle rows"],
    },
    "C08": {
        "lean_modules": ["Darling.Props.C08", "Darling.Props.C08Spec"],
        "streams": [
            {"name": "c08", "n": {"quick": 6000, "thorough": 120000},
             "trivial": lambda case, ans: False,
             # all partitions of one item sequence must give the same answer (positions aside)
             "group_judge": (lambda cid: (re.match(r"p-(\w+)-\d+$", cid) or [None, None])[1],
                             lambda ans: re.sub(r"\(sp \d+ \d+\)", "sp", ans),
                             # a declared attribute whose body is not a list of items (e.g. a keyword
                             # used as a name) is rejected as a whole: its tokens are not "items"
                             lambda case: '(bad "' in case)},
            {"name": "c16", "n": {"quick": 3000, "thorough": 60000}, "trivial": lambda case, ans: False},
            {"name": "c07o", "n": {"quick": 3000, "thorough": 60000}, "trivial": lambda case, ans: False},
        ],
        "rule": "c08: compiled corpus of 80 element-level receivers (18 FromField, 14 FromVariant, 8 FromTypeParam, 30 FromDeriveInput, 10 FromAttributes; 1..3 attribute names, forward_attrs absent / bare / list / empty, attrs field plain or with a `with` function, magic fields, supports, from_ident, flatten, multiple, defaults) x item sequences (valid, or with 1..3 mistakes) x 4 partitions each (all items in one attribute; random contiguous splits over random declared names) with bare / empty declared attributes and foreign attributes (doc, cfg, derive, unparseable token bodies, multi-segment paths) interleaved — the foreign attributes of a group keep their relative order so that the forwarded list is the same; every member is compared with the model and the members of a group are compared with each other on the implementation's answers (group judge); c16 / c07o: single elements with valid / malformed attributes; distinct by case text",
        "assumptions": ["'the same items' are the parsed items (syn's NestedMeta values): the model starts after syn's parser; see known finding F16 for the one place where syn's parse of an item depends on its position", "field converters are parameters"],
    },
    "C16": {
        "lean_modules": ["Darling.Props.C16", "Darling.Props.C16Spec"],
        "streams": [
            {"name": "c16", "n": {"quick": 6000, "thorough": 120000}, "trivial": lambda case, ans: not ans.startswith("(ok")},
            {"name": "c16m", "n": {"quick": 4000, "thorough": 80000}, "trivial": lambda case, ans: not ans.startswith("(err")},
            {"name": "c16p", "n": {"quick": 3000, "thorough": 60000}, "trivial": lambda case, ans: False},
        ],
        "rule": "c16: the 80 element-level receivers x generated input elements: derive inputs with every struct style with 0..6 fields, enums with 0..6 variants of mixed style and discriminants, unions (mistake mode), generics with lifetimes / types / consts / defaults / where-clauses, 5 visibility forms, 9 field types, type params with bounds and defaults; receivers declare any subset of the magic fields, `data: ast::Data<V, F>` / `fields: ast::Fields<F>` with V, F in {(), syn::Ident / Type / Visibility / Field / Variant, Vec<Attribute>, other corpus receivers plain or inside SpannedValue / WithOriginal} or a `with` converter; `generics` as syn::Generics, ast::Generics<P> (P = syn::GenericParam or ast::GenericParam<T>), optionally inside darling::Result / WithOriginal; the implementation's value is serialised member by member (tokens) and compared with the model's mirror of the input; c16m: the same with mistakes inside nested fields / variants (all failures reported, located); c16p: Fields::<syn::Field>::try_from(..).to_token_stream() against the model's rendering of the original fields (white space removed); non-trivial = Ok value (c16) / Err (c16m)",
        "assumptions": ["tokens are compared as printed by proc-macro2; entry converters are parameters of the theorems"],
        "partial": "wrapped members are covered for body entries (SpannedValue<..>, WithOriginal<.., syn::Field|Variant>) and generics (darling::Result<..>, WithOriginal<.., syn::Generics>), not for ident / vis / ty (darling offers no wrapper impls there); spans of plain magic members are not compared; the per-receiver wiring (which member gets which part) lives in the executable Env layer and is tied by the correspondence, the theorems cover the total functions it calls",
    },
    "C07": {
        "lean_modules": ["Darling.Props.C07", "Darling.Props.C07Universe", "Darling.Props.C07Outer", "Darling.Props.C07Recv", "Darling.Props.C07OuterRun", "Darling.Props.C07Spec"],
        "streams": [
            {"name": "c07o", "n": {"quick": 6000, "thorough": 120000}, "trivial": lambda case, ans: False},
            {"name": "c16m", "n": {"quick": 3000, "thorough": 60000}, "trivial": lambda case, ans: False},
            {"name": "c07m", "n": {"quick": 8000, "thorough": 160000}, "trivial": lambda case, ans: False},
            {"name": "c02", "n": {"quick": 6000, "thorough": 120000}, "trivial": lambda case, ans: False},
            {"name": "c12", "n": {"quick": 20000, "thorough": 200000}, "trivial": lambda case, ans: False},
            {"name": "c13", "n": {"quick": 60000, "thorough": 60000}, "trivial": lambda case, ans: False},
            {"name": "c11", "n": {"quick": 4000, "thorough": 60000}, "trivial": lambda case, ans: False},
            {"name": "c14", "n": {"quick": 10000, "thorough": 100000}, "trivial": lambda case, ans: False},
            {"name": "c18recv", "n": {"quick": 2000, "thorough": 100000}, "trivial": lambda case, ans: False},
            {"name": "c09", "n": {"quick": 4000, "thorough": 50000}, "trivial": lambda case, ans: False},
        ],
        # every entry point runs under catch_unwind: a panic is a violation whether or not the model agrees
        "impl_judge": lambda case, ans: "the entry point panicked" if ans.startswith("(panic") else None,
        "rule": "c07o: the 80 element-level receivers x elements with malformed attributes (name-value / bare / brace / bracket bodies, missing commas, stray punctuation, literals as names), unions, empty enums, mistakes at every level; c07m: the 160 FromMeta receivers x inputs with 1..2 token-level mutations inside list bodies, preferably at depth >= 2 where generated code parses lazily (deleted commas, stray `=`, `;`, `#`, `=>`, literals as names); c16m / c02 / c09: mistakes in element-level and FromMeta receivers; c12 / c13 / c11 / c14: every built-in conversion (567 wrapper compositions, 54 syntax types, 24 integer types incl. numbers beyond every width, maps) on every item form incl. malformed list bodies; c18recv: supports(..) receivers x every body shape incl. unions; every answer is also judged directly: `(panic` is a violation even when the model agrees; distinct by case text",
        "assumptions": ["user-supplied functions (`with`, `map`, `and_then`, Default impls) and hand-written FromMeta impls are parameters assumed to return", "`Error::multiple(vec![])`, the accumulator's drop bomb and other documented panics of the public error API are C05's subject, not entry points of parsing"],
        "partial": "nesting depth is exercised to depth 3 by the streams; the theorems are depth-independent",
    },
    "C09": {
        "lean_modules": ["Darling.Props.C09", "Darling.Props.C09Spec"],
        "streams": [
            {"name": "c09", "n": {"quick": 8000, "thorough": 100000},
             "trivial": lambda case, ans: False},
        ],
        "rule": "every enum receiver of the corpus (50: unit / newtype / struct variants, rename, rename_all x6, skip, word, allow_unknown_fields, flatten inside struct variants) x input forms built over a superset of its variant names (every rename-rule transform of every variant identifier and explicit renames): bare word, string of each name, single nested word, name-value, nested list, lists of 0/2/3 items, literal items, unknown names, plus the generated valid/invalid samples and the absent form; distinct by case text",
        "assumptions": ["DistinctNames (effective names of selectable variants pairwise distinct) is a hypothesis of the uniqueness theorem"],
    },
    "C17": {
        "lean_modules": ["Darling.Props.C17", "Darling.Props.C17Spec"],
        "streams": [
            {"name": "c17", "n": {"quick": 10000, "thorough": 200000},
             "trivial": lambda case, ans: "Did you mean" not in ans},
            {"name": "c17", "bin": "nosuggest", "n": {"quick": 10000, "thorough": 200000},
             "args": {"quick": ["--no-sim"], "thorough": ["--no-sim"]},
             "trivial": lambda case, ans: "Unknown field" not in ans},
            {"name": "c04", "n": {"quick": 10000, "thorough": 100000},
             "trivial": lambda case, ans: "sibling_alts" not in case and "unknown_alts" not in case},
        ],
        "rule": "c17: every receiver of the corpus (structs with skip / rename / flatten chains up to depth 3, enums) x unknown names at edit distance 0..3 from every name in scope (valid, skipped, enclosing, flattened-in; all rename transforms) injected into otherwise valid inputs, strsim scores as oracle rows; the same stream through a second build of the harness against darling without the `suggestions` feature (no score rows: the model must then produce no suggestion); c04: add_sibling_alts / unknown_field_with_alts in random API histories; non-trivial = a suggestion was produced (resp. an unknown-name error without the feature)",
        "assumptions": ["the similarity measure (strsim::jaro_winkler) is a parameter: theorems hold for arbitrary scores; the threshold literal is regenerated from the source"],
    },
    "C11": {
        "lean_modules": ["Darling.Props.C11", "Darling.Props.C11Spec"],
        "streams": [
            {"name": "c11", "n": {"quick": 4000, "thorough": 60000},
             "args": {"quick": [], "thorough": ["--exhaustive", "70000"]},
             "trivial": lambda case, ans: False},
        ],
        "rule": "24 integer targets x (every type boundary +-3 and small values, each in decimal/hex/binary/octal/underscored/suffixed unquoted spellings and +/space/leading-zero/suffix quoted spellings) + random 1..45-digit strings + 33 scalar targets x 72 literal/meta forms (incl. literal suffixes that disagree with the target type) + from_none + 38 direct calls of the individual trait methods per target; thorough adds the exhaustive range [-70000,70000] x 24 x {quoted, unquoted}; distinct by case text, all counted non-trivial",
        "assumptions": ["std's float parser is a parameter (oracle rows carry str::parse::<f32/f64> bit patterns); syn's literal normalisation (base10_digits) is trusted", "usize/isize are 64-bit on the sandbox target"],
        "partial": "floats: dispatch only (parseF is external)",
    },
    "C12": {
        "lean_modules": ["Darling.Props.C12", "Darling.Props.C12Spec"],
        "streams": [
            {"name": "c12", "n": {"quick": 60000, "thorough": 600000},
             "trivial": lambda case, ans: False},
        ],
        "rule": "grid of 7 inner targets x 10 wrappers x 7x10 two-level compositions (567 types), each with from_none, random picks from 50 fixed meta forms (word / list incl. malformed bodies / name-value literal / name-value expression), and 38 direct calls of the individual trait methods (from_word, from_list, from_string, from_bool, from_char, from_value, from_expr — the routes flatten / multiple / hand-written code take around from_meta); distinct by case text",
        "assumptions": ["inner targets so far: bool, u8, i64, String, char, (), Flag (syntax-typed and derived inners are added with C13/C01)"],
    },
    "C13": {
        "lean_modules": ["Darling.Props.C13", "Darling.Props.C13Spec"],
        "streams": [
            {"name": "c13", "n": {"quick": 60000, "thorough": 60000},
             "trivial": lambda case, ans: False},
        ],
        "rule": "exhaustive: all 54 syntax-valued implementors (regenerated macro invocation lists) x 751 item forms (113 values from a grammar of paths / identifiers incl. raw and keywords / expressions / types / visibilities / where-predicates / literal arrays, each bare, quoted and as list body — incl. values that are themselves string literals, single-segment global / generic paths, 48-deep nesting — plus 13 literal spellings; every name-value form also wrapped in one (a subset: two) invisible groups, array values also with groups around their elements; 38 direct calls of the individual trait methods per type) + from_none; distinct by case text",
        "assumptions": ["syn's grammar parsers on string contents and syn's printer are external: oracle rows carry syn's own verdict and printed tokens for every string literal in the input"],
        "partial": "relative to syn's print/parse round trip (hypothesis of the agreement theorem, observed by the correspondence only)",
    },
    "C14": {
        "lean_modules": ["Darling.Props.C14", "Darling.Props.C14Spec"],
        "streams": [
            {"name": "c14", "n": {"quick": 30000, "thorough": 600000},
             "trivial": lambda case, ans: "(mlist (path false (\"m\") true \"m\" 0 1) ()" in case},
        ],
        "project": no_spans,
        "rule": "5 map instantiations x 6 value types (bool, u8, String, Expr, nested map, Option<u8>) x random item lists of length 0..12: half built valid for the map type (distinct acceptable keys, acceptable values, <= 1 injected mistake), half free (key pool 1..10 incl. multi-segment / global / raw / generic keys, literal items, bad values); non-trivial = non-empty list; distinct by case text",
        "assumptions": ["element conversions do not panic (NoPanic hypothesis of the theorem; true of every built-in by C07)"],
    },
    "C15": {
        "lean_modules": ["Darling.Props.C15", "Darling.Props.C15a", "Darling.Props.C15Spec"],
        "streams": [
            {"name": "c15b", "n": {"quick": 80000, "thorough": 80000},
             "trivial": lambda case, ans: False},
            {"name": "c15a", "n": {"quick": 6000, "thorough": 200000},
             "trivial": lambda case, ans: "(toks)" in case},
        ],
        # an accepted list that does not survive print + re-parse violates (a) by itself
        "impl_judge": lambda case, ans: "printing and re-parsing the accepted list is not the identity" if ans.startswith("(roundtrip-differs") else None,
        "rule": "(a) c15a: token streams for NestedMeta::parse_meta_list — exhaustive over a pool of 91 entries (12 literal spellings incl. negative numbers and booleans, 14 path forms incl. `::`-rooted, keyword-rooted and raw ones, 18 name-value forms incl. `true = 1` and arbitrary expressions, 11 list forms to depth 5, 36 dubious forms: stray punctuation, missing values, keywords, half paths): each alone, with trailing / doubled / leading comma, and every ordered pair with and without the comma; plus random lists of 0..5 entries nested to depth 4 with separator mutations; for every token position the harness records what syn's Lit and Meta parsers do when started there (oracle rows); accepted lists are printed and re-parsed by the harness (identity required); (b) c15b exhaustive: all 2^7 probe implementers x {returning Ok, returning a span-less error, returning an unspanned bundle of two errors} x 165 item forms (word, global/raw paths, 23 literal spellings, 12 expression kinds, 16 list bodies incl. malformed, each also wrapped in 1 and 2 invisible groups) + every literal in nested-literal position; distinct by case text",
        "assumptions": ["probe hooks are the only overridden methods (from_meta / from_nested_meta left at default), as the statement's 2^7 subsets prescribe", "syn's Lit / Meta parsers and syn's printer are parameters (oracle rows per token position); the model is darling's own look-ahead and comma discipline"],
        "partial": "the print / re-parse identity is judged on the implementation's answers (syn's printer is external), not proved",
    },
    "C18": {
        "lean_modules": ["Darling.Props.C18", "Darling.Props.C18Spec"],
        "streams": [
            {"name": "c18api", "n": {"quick": 1, "thorough": 1}, "trivial": lambda case, ans: False},
            {"name": "c18recv", "n": {"quick": 3000, "thorough": 1000000},
             "trivial": lambda case, ans: False},
        ],
        "rule": "c18api: exhaustive 16 shape sets (built two ways) x 4 shapes through ShapeSet::{contains, check, Display, is_empty}; c18recv: 74 FromDeriveInput receivers (empty, each of the 11 words alone, all 55 pairs, struct-only, enum-only, mixed, repeated) x bodies (4 struct styles, union, every enum of 0..3 [thorough: 0..4] variants over all style combinations; quick samples the larger enums) + 32 FromVariant receivers (all subsets of the 5 variant words) x 4 shapes; distinct by case text",
        "assumptions": ["the receivers' own `supports(..)` declarations are read back from the compiled corpus source and parsed by the model"],
    },
    "C19": {
        "lean_modules": ["Darling.Props.C19", "Darling.Props.C19Spec"],
        "streams": [
            {"name": "c19a", "n": {"quick": 15000, "thorough": 300000},
             "trivial": lambda case, ans: ans == "(uses () ())"},
            {"name": "c19b", "n": {"quick": 4000, "thorough": 80000},
             "trivial": lambda case, ans: ans == "(bounded)"},
        ],
        "rule": "c19a: random types from a grammar over every syn::Type form valid in field position (depth 0..5; parameters planted at leading segments, path tails, global paths, generic / associated-type / constraint arguments, fn and Fn(..) signatures, references, slices, arrays and const-expression lengths, tuples, pointers, trait objects with for<..> binders, impl Trait, qualified selves, macro bodies) x random query sets of type parameters and lifetimes x both purposes, through uses_type_params / uses_lifetimes; non-trivial = non-empty answer. c19b: random generic struct/enum receivers (1..3 type params, optional lifetime/const params, bounds, where-clause, fields and variants with skip in all spellings) through darling_core::derive::{from_meta, from_derive_input, from_field, from_variant, from_type_param}: the emitted impl's generics, where-clause and added bounds are read off the returned tokens",
        "assumptions": ["for<'x> binders that re-declare a queried lifetime are outside the judged domain (rustc rejects such shadowing)", "c19b: which fields are skipped is read from the declaration by the harness (own reader of `skip`, `skip = bool`)"],
    },
    "C05": {
        "lean_modules": ["Darling.Props.C05", "Darling.Props.C05Spec"],
        "streams": [
            {"name": "c05", "n": {"quick": 20000, "thorough": 400000},
             "trivial": lambda case, ans: "(hist () " in case},
        ],
        "rule": "random operation histories (0..15 borrowing ops, checkpoints, one consuming end or drop / drop-during-unwind) on the real Accumulator, obtained through either public constructor (Error::accumulator(), Accumulator::default()); extend is fed exact-size, filtered, unbounded (from_fn) and darling's own IntoIter iterators; an operation that panics ends the history with a reportable partial trace; non-trivial = at least one operation before the end; distinct by case text",
        "assumptions": ["sequences that use an accumulator after a consuming method are not expressible in safe Rust and are outside the domain"],
    },
}
