"""Tiny s-expression reader matching Darling/Sexp.lean (atoms, "strings", lists)."""


def parse(s):
    pos = [0]
    n = len(s)

    def skip():
        while pos[0] < n and s[pos[0]] in " \t\n":
            pos[0] += 1

    def one():
        skip()
        if pos[0] >= n:
            raise ValueError("eof")
        c = s[pos[0]]
        if c == "(":
            pos[0] += 1
            xs = []
            while True:
                skip()
                if pos[0] >= n:
                    raise ValueError("eof in list")
                if s[pos[0]] == ")":
                    pos[0] += 1
                    return xs
                xs.append(one())
        if c == '"':
            pos[0] += 1
            out = []
            while True:
                c = s[pos[0]]
                if c == "\\":
                    out.append(s[pos[0]:pos[0] + 2])
                    pos[0] += 2
                elif c == '"':
                    pos[0] += 1
                    return ("str", "".join(out))
                else:
                    out.append(c)
                    pos[0] += 1
        st = pos[0]
        while pos[0] < n and s[pos[0]] not in ' ()"\t\n':
            pos[0] += 1
        return s[st:pos[0]]

    v = one()
    skip()
    if pos[0] != n:
        raise ValueError("trailing input")
    return v


def drop_tags(x, tags):
    """replace every sub-list whose head atom is in `tags` by the atom `_`"""
    if isinstance(x, list):
        if x and isinstance(x[0], str) and x[0] in tags:
            return "_"
        return [drop_tags(y, tags) for y in x]
    return x
