#!/bin/bash
# tools/integrate_spec.sh Cxx [dir]  — copy an audit agent's CxxSpec.lean into the project and register the module
p=$1; d=${2:-/tmp/lean-aud-$p}
cp $d/Darling/Props/${p}Spec.lean /verif/lean/Darling/Props/ || exit 1
python3 - "$p" <<'PY'
import sys,re
p=sys.argv[1]
f='/verif/tools/props.py'
s=open(f).read()
m=re.search(r'("%s": \{\s*"lean_modules": \[)([^\]]*)\]'%p, s)
mods=m.group(2)
new='"Darling.Props.%sSpec"'%p
if new not in mods:
    s=s[:m.start(2)]+mods+', '+new+s[m.end(2):]
    open(f,'w').write(s)
print('registered',p)
PY
