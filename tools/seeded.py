#!/usr/bin/env python3
"""
Confirm a seeded change and run the checks against it.

  tools/seeded.py confirm <worktree> <mutant-dir> <seed-id> <property> [checks...]

1. in the scratch worktree (outside /repo, /verif): apply patch, run the whole test suite (must
   pass), run the demonstration (must fail); undo; run the demonstration (must pass)
2. store /verif/seeded/<seed-id>/{patch.diff,demo.rs,meta.json}
3. apply the patch to /repo, run the listed checks (default: the property's), undo
"""
import json
import os
import shutil
import subprocess
import sys

ENV = dict(os.environ, CARGO_NET_OFFLINE="true")


def sh(cmd, cwd=None):
    p = subprocess.run(cmd, cwd=cwd, env=ENV, stdout=subprocess.PIPE, stderr=subprocess.STDOUT, text=True, shell=isinstance(cmd, str))
    return p.returncode, p.stdout


def suite(wt):
    rc, out = sh("cargo test --workspace --no-fail-fast --offline 2>&1 | grep -E '^test result|FAILED|panicked|error(\\[|:)'", cwd=wt)
    passed = failed = 0
    for line in out.splitlines():
        if line.startswith("test result"):
            parts = line.split()
            passed += int(parts[3])
            failed += int(parts[5])
    compile_err = "error" in out and "test result" not in out
    return passed, failed, compile_err, out


def demo(wt):
    rc, out = sh("cargo test --offline --test seeded_demo --features proc-macro2/span-locations 2>&1 | tail -40", cwd=wt)
    ok = "test result: ok" in out
    return ok, out


def recheck(sid, checks):
    dest = os.path.join("/verif/seeded", sid)
    meta = json.load(open(os.path.join(dest, "meta.json")))
    checks = checks or [meta["property"]]
    rc, out = sh(["git", "status", "--porcelain"], cwd="/repo")
    if out.strip():
        print("/repo not clean; refusing")
        return 1
    rc, out = sh(["git", "apply", os.path.join(dest, "patch.diff")], cwd="/repo")
    if rc != 0:
        print("patch does not apply to /repo:", out)
        return 1
    results = meta.get("checks_run", {})
    try:
        for c in checks:
            rc, out = sh(["./check", c, "--tier", "quick"], cwd="/verif")
            lines = [l for l in out.splitlines() if l.startswith(("VIOLATION", "OK", "KNOWN"))]
            results[c] = {"exit": rc, "lines": lines}
            print("%s check %s: exit %d %s" % (sid, c, rc, lines))
            for l in lines:
                if l.startswith("VIOLATION") and "replay=" in l:
                    rp = l.split("replay=")[1].split()[0]
                    if os.path.exists(rp):
                        shutil.copy(rp, os.path.join(dest, "replay-%s.json" % c))
    finally:
        sh("git checkout -- .", cwd="/repo")
    meta["checks_run"] = results
    meta["caught_by"] = sorted(c for c, r in results.items() if r["exit"] != 0)
    json.dump(meta, open(os.path.join(dest, "meta.json"), "w"), indent=1)
    return 0


def main():
    if sys.argv[1] == "recheck":
        return recheck(sys.argv[2], sys.argv[3:])
    _, cmd, wt, mdir, sid, prop, *checks = sys.argv
    checks = checks or [prop]
    patch = os.path.join(mdir, "patch.diff")
    demo_src = os.path.join(mdir, "demo.rs")
    meta = {"id": sid, "property": prop, "source": "independent sub-agent given only the property text and a scratch worktree"}
    notes = os.path.join(mdir, "notes.md")
    if os.path.exists(notes):
        meta["needs_to_manifest_and_notes"] = open(notes).read()
    sh("git checkout -- . && rm -f tests/seeded_demo.rs", cwd=wt)
    rc, out = sh(["git", "apply", patch], cwd=wt)
    if rc != 0:
        print("patch does not apply:", out)
        return 1
    p, f, ce, out = suite(wt)
    meta["suite_with_change"] = {"passed": p, "failed": f}
    print("suite with change: passed=%d failed=%d" % (p, f))
    if f or ce or p < 178:
        print(out[-2000:])
        print("REJECT: suite does not pass with the change")
        sh("git checkout -- .", cwd=wt)
        return 1
    shutil.copy(demo_src, os.path.join(wt, "tests", "seeded_demo.rs"))
    ok_with, out_with = demo(wt)
    sh("git checkout -- .", cwd=wt)
    ok_without, out_without = demo(wt)
    os.unlink(os.path.join(wt, "tests", "seeded_demo.rs"))
    meta["demo_with_change_passes"] = ok_with
    meta["demo_without_change_passes"] = ok_without
    print("demo with change passes=%s, without change passes=%s" % (ok_with, ok_without))
    if ok_with or not ok_without:
        print(out_with[-1500:], out_without[-1500:])
        print("REJECT: demonstration does not discriminate")
        return 1
    dest = os.path.join("/verif/seeded", sid)
    os.makedirs(dest, exist_ok=True)
    shutil.copy(patch, os.path.join(dest, "patch.diff"))
    shutil.copy(demo_src, os.path.join(dest, "demo.rs"))
    # run the checks against /repo with the change applied
    rc, out = sh(["git", "status", "--porcelain"], cwd="/repo")
    if out.strip():
        print("/repo not clean; refusing")
        return 1
    rc, out = sh(["git", "apply", os.path.abspath(patch)], cwd="/repo")
    if rc != 0:
        print("patch does not apply to /repo:", out)
        return 1
    results = {}
    try:
        for c in checks:
            rc, out = sh(["./check", c, "--tier", "quick"], cwd="/verif")
            lines = [l for l in out.splitlines() if l.startswith(("VIOLATION", "OK", "KNOWN"))]
            results[c] = {"exit": rc, "lines": lines}
            print("check %s: exit %d %s" % (c, rc, lines))
            for l in lines:
                if l.startswith("VIOLATION") and "replay=" in l:
                    rp = l.split("replay=")[1].split()[0]
                    if os.path.exists(rp):
                        shutil.copy(rp, os.path.join(dest, "replay-%s.json" % c))
    finally:
        sh("git checkout -- .", cwd="/repo")
    meta["checks_run"] = results
    meta["caught_by"] = [c for c, r in results.items() if r["exit"] != 0]
    meta["ran"] = ["cargo test --workspace --no-fail-fast --offline (scratch worktree, change applied)",
                   "cargo test --offline --test seeded_demo (with and without the change)",
                   "git -C /repo apply patch.diff; ./check <prop> --tier quick; git -C /repo checkout -- ."]
    json.dump(meta, open(os.path.join(dest, "meta.json"), "w"), indent=1)
    # evidence files were rewritten by the mutated run; restore by re-running on the clean tree later
    print("stored", dest, "caught_by", meta["caught_by"])
    return 0


if __name__ == "__main__":
    sys.exit(main())
