#!/bin/bash
# Re-run every stored seeded change against the check(s) that are recorded as catching it.
# Usage: tools/regress_seeded.sh [log]   (applies each patch to /repo and undoes it; /repo must be clean)
LOG=${1:-/tmp/regress_seeded.log}
: > "$LOG"
cd /verif
for d in seeded/*/; do
  id=$(basename "$d")
  [ "$id" = "harmless" ] && continue
  [ -f "$d/meta.json" ] || continue
  checks=$(python3 -c "import json,sys; m=json.load(open('$d/meta.json')); print(' '.join(m.get('caught_by') or [m['property']]))")
  first=$(echo $checks | cut -d' ' -f1)
  out=$(python3 tools/seeded.py recheck "$id" $first 2>&1 | tail -1 | cut -c1-140)
  echo "$out" >> "$LOG"
done
grep -c "exit 1" "$LOG"; grep "exit 0" "$LOG"
